#!/bin/bash
# run_seed.sh <seeded-name> <checks...>: apply a kept seeded patch to /repo, run checks, revert
name=$1; shift
export VERIF_EVIDENCE_DIR=/verif/sim/target/tmp/seeded-evidence VERIF_REPLAY_DIR=/verif/sim/target/tmp/seeded-replays
git -C /repo apply /verif/seeded/$name/patch.diff || { echo "$name: does not apply"; exit 1; }
det=""
for c in "$@"; do
  o=$(/verif/check $c quick 2>&1); code=$?
  [ $code -eq 1 ] && det="$det $c[$(echo "$o" | grep -m1 'class=' | sed 's/.*class=\([^ ]*\).*/\1/')]"
  [ $code -eq 2 ] && det="$det $c[HARNESS-ERROR]"
done
git -C /repo checkout -q -- .
echo "$name: detected by:${det:- NONE} (ran: $*)"
python3 - "$name" "$det" <<'PY'
import json,sys
f=f'/verif/seeded/{sys.argv[1]}/meta.json'
m=json.load(open(f)); d=sys.argv[2].split()
m['detected_by']=sorted(set(m.get('detected_by',[])+[x.split('[')[0] for x in d]))
m['detection_classes']=sorted(set(m.get('detection_classes',[])+d))
json.dump(m,open(f,'w'),indent=1)
PY
