#!/bin/bash
# confirm_seed.sh <prop> <n> [check props...]: confirm a seeded change in its scratch worktree, then run /verif checks
# against /repo with the patch applied (and revert). Copies the change to /verif/seeded/<prop>-<n>/ when confirmed.
set -u
P=$1; N=$2; shift 2
CHECKS="${*:-$P}"
WT=${WTDIR:-/tmp/wt}/$P
SRC=${SEEDDIR:-/tmp/seeded_out}/$P/$N
TAG=${SEEDTAG:-}
export CARGO_NET_OFFLINE=true
cd "$WT" || exit 2
git checkout -q -- . ; rm -f tests/demo.rs
git apply --check "$SRC/patch.diff" || { echo "$P-$N: patch does not apply"; exit 1; }
git apply "$SRC/patch.diff"
out=$(cargo test --workspace --no-fail-fast --offline 2>&1)
suite_fail=$(echo "$out" | grep -E "^test .* FAILED" | wc -l)
echo "$out" | grep -qE "^error" && suite_fail=999
passed=$(echo "$out" | grep -E "^test result" | awk '{s+=$4} END{print s}')
cp "$SRC/demo.rs" tests/demo.rs
demo_with=$(timeout 900 cargo test --offline --workspace --test demo 2>&1; echo "EXIT=$?")
# a demo that aborts the test binary (stack overflow, SIGABRT) or times out also counts as failing
if echo "$demo_with" | grep -qE "^test result: FAILED|EXIT=(1[0-9][0-9]|[1-9][0-9]?)$"; then demo_with="FAILED ($(echo "$demo_with" | grep -E "^test result|EXIT=" | tr '\n' ' '))"; else demo_with="$(echo "$demo_with" | grep -E "^test result" | head -1)"; fi
git checkout -q -- .
demo_without=$(timeout 600 cargo test --offline --workspace --test demo 2>&1 | grep -E "^test result" | head -1)
rm -f tests/demo.rs
echo "$P-$N: suite failures (non-demo) with patch: $suite_fail (passed total $passed) | demo with patch: $demo_with | demo without: $demo_without"
ok=1
[ "$suite_fail" = "0" ] || ok=0
echo "$demo_with" | grep -q "FAILED" || ok=0
echo "$demo_without" | grep -q "ok\." || ok=0
if [ $ok -ne 1 ]; then echo "$P-$N: NOT CONFIRMED"; exit 1; fi
# run the checks against /repo
export VERIF_EVIDENCE_DIR=/verif/sim/target/tmp/seeded-evidence VERIF_REPLAY_DIR=/verif/sim/target/tmp/seeded-replays
mkdir -p $VERIF_EVIDENCE_DIR $VERIF_REPLAY_DIR
if [ -n "$(git -C /repo status --porcelain --untracked-files=no)" ]; then echo "repo dirty"; exit 2; fi
git -C /repo apply "$SRC/patch.diff"
det=""
for c in $CHECKS; do
  o=$(/verif/check $c quick 2>&1); code=$?
  if [ $code -eq 1 ]; then det="$det $c[$(echo "$o" | grep -m1 'class=' | sed 's/.*class=\([^ ]*\).*/\1/')]"; fi
  if [ $code -eq 2 ]; then det="$det $c[HARNESS-ERROR]"; echo "$o" | tail -5; fi
done
git -C /repo checkout -q -- .
echo "$P-$N: detected by:${det:- NONE} (ran: $CHECKS)"
D=/verif/seeded/$P-${TAG}$N; mkdir -p $D; cp "$SRC/patch.diff" "$SRC/demo.rs" $D/
python3 - "$SRC/meta.json" "$D/meta.json" "$P" "$det" "$CHECKS" <<'PY'
import json,sys
m=json.load(open(sys.argv[1]))
m['property']=sys.argv[3]
m['confirmed']={"suite_passes_with_patch":True,"demo_fails_with_patch":True,"demo_passes_without_patch":True,"how":"tools/confirm_seed.sh in scratch worktree /tmp/wt/<prop>"}
m['checks_run']=sys.argv[5].split()
m['detected_by']=[d.split('[')[0] for d in sys.argv[4].split()]
m['detection_classes']=sys.argv[4].split()
json.dump(m,open(sys.argv[2],'w'),indent=1)
PY
