#!/bin/bash
# confirm_wave_a.sh <prop>: phase A of confirming a wave of sub-agent changes for one property, entirely inside the
# property's scratch worktree: suite green with the patch, demo fails with it, demo passes without. Writes
# $SEEDDIR/<prop>/<n>/confirm.txt (CONFIRMED / NOT CONFIRMED + details).
set -u
P=$1
WT=${WTDIR:-/tmp/wt4}/$P
export CARGO_NET_OFFLINE=true
cd "$WT" || exit 2
for SRC in ${SEEDDIR:-/tmp/seeded_out4}/$P/*/; do
  SRC=${SRC%/}
  [ -f "$SRC/patch.diff" ] || continue
  git checkout -q -- . ; rm -f tests/demo.rs
  if ! git apply --check "$SRC/patch.diff" 2>/dev/null; then echo "NOT CONFIRMED: patch does not apply" > "$SRC/confirm.txt"; continue; fi
  git apply "$SRC/patch.diff"
  out=$(cargo test --workspace --no-fail-fast --offline 2>&1)
  suite_fail=$(echo "$out" | grep -E "^test .* FAILED" | wc -l)
  echo "$out" | grep -qE "^error" && suite_fail=999
  passed=$(echo "$out" | grep -E "^test result" | awk '{s+=$4} END{print s}')
  cp "$SRC/demo.rs" tests/demo.rs
  demo_with=$(timeout 1200 cargo test --offline --workspace --test demo 2>&1; echo "EXIT=$?")
  if echo "$demo_with" | grep -qE "^test result: FAILED|EXIT=(1[0-9][0-9]|[1-9][0-9]?)$"; then demo_with="FAILED ($(echo "$demo_with" | grep -E "^test result|EXIT=" | tr '\n' ' '))"; else demo_with="$(echo "$demo_with" | grep -E "^test result" | head -1)"; fi
  git checkout -q -- .
  demo_without=$(timeout 1200 cargo test --offline --workspace --test demo 2>&1 | grep -E "^test result" | head -1)
  rm -f tests/demo.rs
  ok=1
  [ "$suite_fail" = "0" ] || ok=0
  [ "$passed" = "57" ] || ok=0
  echo "$demo_with" | grep -q "FAILED" || ok=0
  echo "$demo_without" | grep -q "ok\." || ok=0
  { [ $ok -eq 1 ] && echo "CONFIRMED" || echo "NOT CONFIRMED"; echo "suite failures with patch: $suite_fail (passed $passed) | demo with patch: $demo_with | demo without: $demo_without"; } > "$SRC/confirm.txt"
done
git checkout -q -- . ; rm -f tests/demo.rs
