#!/usr/bin/env python3
"""Rewrites the table between the SEEDED-TABLE markers of DESIGN.md from /verif/seeded/*/meta.json."""
import json, glob, os, re
rows = []
for d in sorted(glob.glob('/verif/seeded/*/')):
    m = json.load(open(d + 'meta.json'))
    name = os.path.basename(d.rstrip('/'))
    summ = (m.get('summary') or m.get('description') or '').replace('|', '/').replace('\n', ' ')
    if len(summ) > 170:
        summ = summ[:167] + '...'
    det = ', '.join(m.get('detected_by', [])) or '**not detected**'
    cls = '; '.join(sorted(set(c.split('[', 1)[1].rstrip(']') for c in m.get('detection_classes', []) if '[' in c)))
    if len(cls) > 70:
        cls = cls[:67] + '...'
    rows.append(f"| {name} | {summ} | {det} | {cls} |")
table = "| change | what it does | caught by | violation class |\n|---|---|---|---|\n" + "\n".join(rows) + f"\n\n{len(rows)} changes kept."
p = '/verif/DESIGN.md'
s = open(p).read()
s = re.sub(r'<!-- SEEDED-TABLE-BEGIN -->.*<!-- SEEDED-TABLE-END -->', '<!-- SEEDED-TABLE-BEGIN -->\n' + table.replace('\\', '\\\\') + '\n<!-- SEEDED-TABLE-END -->', s, flags=re.S)
open(p, 'w').write(s)
print(len(rows), 'rows')
