#!/bin/bash
# confirm_wave_b.sh <tag> <prop> <n> [checks...]: phase B — run /verif checks against $VB_REPO with a confirmed change applied
# (and revert), then keep it as /verif/seeded/<prop>-<tag><n>/.
set -u
VB_REPO=${VB_REPO:-/repo}; VB_VERIF=${VB_VERIF:-/verif}; export VERIF_REPO=$VB_REPO
TAG=$1; P=$2; N=$3; shift 3
CHECKS="${*:-$P}"
SRC=${SEEDDIR:-/tmp/seeded_out4}/$P/$N
grep -q "^CONFIRMED" "$SRC/confirm.txt" || { echo "$P-$N: not confirmed: $(tail -1 $SRC/confirm.txt)"; exit 1; }
export VERIF_EVIDENCE_DIR=$VB_VERIF/sim/target/tmp/seeded-evidence VERIF_REPLAY_DIR=$VB_VERIF/sim/target/tmp/seeded-replays
mkdir -p $VERIF_EVIDENCE_DIR $VERIF_REPLAY_DIR
if [ -n "$(git -C $VB_REPO status --porcelain --untracked-files=no)" ]; then echo "repo dirty"; exit 2; fi
git -C $VB_REPO apply "$SRC/patch.diff" || exit 2
det=""
for c in $CHECKS; do
  o=$($VB_VERIF/check $c quick 2>&1); code=$?
  if [ $code -eq 1 ]; then det="$det $c[$(echo "$o" | grep -m1 'class=' | sed 's/.*class=\([^ ]*\).*/\1/')]"; fi
  if [ $code -eq 2 ]; then det="$det $c[HARNESS-ERROR]"; echo "$o" | tail -5; fi
done
git -C $VB_REPO checkout -q -- .
echo "$P-$TAG$N: detected by:${det:- NONE} (ran: $CHECKS)"
D=/verif/seeded/$P-$TAG$N; mkdir -p $D; cp "$SRC/patch.diff" "$SRC/demo.rs" $D/
python3 - "$SRC/meta.json" "$D/meta.json" "$P" "$det" "$CHECKS" "$SRC/confirm.txt" <<'PY'
import json,sys
m=json.load(open(sys.argv[1]))
m['property']=sys.argv[3]
m['confirmed']={"suite_passes_with_patch":True,"demo_fails_with_patch":True,"demo_passes_without_patch":True,"how":"tools/confirm_wave_a.sh in the sub-agent's scratch worktree: "+open(sys.argv[6]).read().strip().splitlines()[-1]}
m['checks_run']=sys.argv[5].split()
m['detected_by']=[d.split('[')[0] for d in sys.argv[4].split() if 'HARNESS-ERROR' not in d]
m['detection_classes']=sys.argv[4].split()
json.dump(m,open(sys.argv[2],'w'),indent=1)
PY
