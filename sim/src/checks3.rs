//! C16 (dependency snapshot) and C20 (SolverCache) — workloads that drive other public surfaces than
//! `Solver::solve` under the same simulator.

use crate::core::{Ev, Kind, Policy, Y_CAND, Y_DEPS, Y_FILTER, Y_SORT};
use crate::gen::{gen_config, gen_world, GenParams};
use crate::prng::Rng;
use crate::props::*;
use crate::provider::{deps_eq, to_requirement, SimProvider};
use crate::reference::{first_choice, validity_errors};
use crate::run::{
    make_core, CacheOp, CacheSpec, Extra, PanicInfo, RuntimeKind, Scenario, SnapProblem, SnapReq,
    SnapSpec, SnapVs,
};
use crate::runtime::{set_salt, SimRuntime};
use crate::world::{Deps, Hint, ProblemSpec, Req, VersionSet, World};
use resolvo::runtime::AsyncRuntime;
use resolvo::snapshot::DependencySnapshot;
use resolvo::{
    DependencyProvider, Interner, NameId, Problem, SolvableId, Solver, SolverCache,
    UnsolvableOrCancelled, VersionSetId,
};
use std::collections::{BTreeMap, BTreeSet};
use std::panic::{catch_unwind, AssertUnwindSafe};

// =============================================================================================
// C16

pub struct C16;

/// What a faithful capture must contain, computed on the tables.
fn closure(w: &World, spec: &SnapSpec) -> (BTreeSet<u32>, BTreeSet<u32>, BTreeSet<u32>) {
    let mut names: BTreeSet<u32> = BTreeSet::new();
    let mut solv: BTreeSet<u32> = BTreeSet::new();
    let mut vss: BTreeSet<u32> = BTreeSet::new();
    #[derive(Clone, Copy)]
    enum E {
        N(u32),
        S(u32),
        V(u32),
    }
    let mut q: Vec<E> = Vec::new();
    for n in &spec.seed_names {
        if names.insert(*n) {
            q.push(E::N(*n));
        }
    }
    for v in &spec.seed_version_sets {
        if vss.insert(*v) {
            q.push(E::V(*v));
        }
    }
    for s in &spec.seed_solvables {
        if solv.insert(*s) {
            q.push(E::S(*s));
        }
    }
    while let Some(e) = q.pop() {
        match e {
            E::N(n) => {
                for &c in w.cands(n) {
                    if solv.insert(c) {
                        q.push(E::S(c));
                    }
                }
            }
            E::S(s) => {
                let n = w.solvable_name(s);
                if names.insert(n) {
                    q.push(E::N(n));
                }
                if let Some((reqs, cons)) = w.known_deps(s) {
                    let mut all: Vec<u32> = cons.clone();
                    for r in reqs {
                        all.extend(w.req_version_sets(r));
                    }
                    for v in all {
                        if vss.insert(v) {
                            q.push(E::V(v));
                        }
                    }
                }
            }
            E::V(v) => {
                let n = w.vs_name(v);
                if names.insert(n) {
                    q.push(E::N(n));
                }
                for c in w.matching(v) {
                    if solv.insert(c) {
                        q.push(E::S(c));
                    }
                }
            }
        }
    }
    (names, solv, vss)
}

fn panic_info() -> PanicInfo {
    crate::run::take_last_panic()
}

impl Property for C16 {
    fn id(&self) -> &'static str {
        "C16"
    }
    fn runs(&self, tier: Tier) -> u64 {
        match tier {
            Tier::Quick => 100_000,
            Tier::Thorough => 2_000_000,
        }
    }
    fn rule(&self) -> &'static str {
        "live seeded world (no favored/locked; dense, shuffled and sparse id layouts) -> DependencySnapshot::from_provider_async under the simulator's executor with seeded seed sets of names / version sets / solvables -> 0-2 serde_json round trips -> SnapshotProvider + seeded history of add_package_requirement calls -> problems over captured version sets (always one using the highest-numbered captured id) and added ones; oracle: no panic in snapshot code; added ids distinct from captured ids and from each other; every captured version set keeps its name/display/matches after the adds; per-package candidate order by `order` equals the live sort order; verdict = reference on the live tables (+ added sets); Ok(S) valid against the live tables; S = first-choice closure when C07's precondition holds; the live provider looks up its ranking policy once per sort_candidates call, for the package of the slice it is given (a slice that mixes packages is ranked by the first one's policy); non-trivial = snapshot with >= 3 solvables and at least one problem solved; distinct = (world, spec) hash"
    }
    fn gen(&self, seed: u64, _tier: Tier) -> Vec<Scenario> {
        let mut params = match seed % 3 {
            0 => GenParams::conflict_free(),
            1 => GenParams::conflict_rich(),
            _ => GenParams::wide(),
        };
        params.p_favored = 0;
        params.p_locked = 0;
        params.p_self_constrain = 0;
        params.id_weights = [3, 3, 6];
        params.max_packages = 7;
        params.max_soft = 0;
        let mut wr = Rng::stream(seed, "world");
        let (mut w, ps) = gen_world(&mut wr, &params, 1);
        // a union is whatever `version_sets_in_union` yields: on some seeds one union has a single member or none (the
        // solvable that requires an empty union is simply not installable)
        {
            let mut dr = Rng::stream(seed, "degenerate-union");
            if !w.unions.is_empty() && dr.chance(1, 6) {
                let ids: Vec<u32> = w.unions.keys().copied().collect();
                let u = *dr.pick(&ids);
                let m = w.unions.get_mut(&u).unwrap();
                if dr.chance(1, 2) {
                    m.clear();
                } else {
                    m.truncate(1);
                }
            }
        }
        let mut r = Rng::stream(seed, "snapshot");
        let mut spec = SnapSpec::default();
        // seeds: everything the root problem mentions, or random subsets
        let all_names: Vec<u32> = w.packages.keys().copied().collect();
        let all_vs: Vec<u32> = w.version_sets.keys().copied().collect();
        let all_s: Vec<u32> = w.solvables.keys().copied().collect();
        match r.below(4) {
            0 => spec.seed_names = all_names.clone(),
            1 => {
                for req in &ps[0].requirements {
                    spec.seed_version_sets.extend(w.req_version_sets(req));
                }
                spec.seed_version_sets.extend(ps[0].constraints.iter().copied());
            }
            2 => {
                for n in &all_names {
                    if r.chance(1, 2) {
                        spec.seed_names.push(*n);
                    }
                }
                for v in &all_vs {
                    if r.chance(1, 3) {
                        spec.seed_version_sets.push(*v);
                    }
                }
            }
            _ => {
                for s in &all_s {
                    if r.chance(1, 3) {
                        spec.seed_solvables.push(*s);
                    }
                }
                if let Some(v) = all_vs.first() {
                    spec.seed_version_sets.push(*v);
                }
            }
        }
        spec.seed_version_sets.sort();
        spec.seed_version_sets.dedup();
        spec.serde_cycles = r.below(3) as u8;
        spec.timeout_after = if r.chance(1, 3) { Some(r.below(4)) } else { None };
        let (names, solv, vss) = closure(&w, &spec);
        let names_v: Vec<u32> = names.iter().copied().collect();
        let n_adds = r.below(4);
        for _ in 0..n_adds {
            if names_v.is_empty() {
                break;
            }
            let n = *r.pick(&names_v);
            let same_pkg_vs: Vec<u32> = vss.iter().copied().filter(|v| w.vs_name(*v) == n).collect();
            let matcher = if r.chance(1, 2) {
                "*".to_string()
            } else if !same_pkg_vs.is_empty() && r.chance(1, 4) {
                // a matcher that happens to be spelled like the display text of a captured version set of the
                // same package (it matches by substring on solvable displays, i.e. usually nothing)
                format!("vs{}", r.pick(&same_pkg_vs))
            } else {
                match w.cands(n).first() {
                    Some(_) => {
                        let c = *r.pick(w.cands(n));
                        let d = format!("s{c}");
                        // full display or a prefix of it (substring matching)
                        if r.chance(1, 2) || d.len() <= 2 {
                            d
                        } else {
                            d[..d.len() - 1].to_string()
                        }
                    }
                    None => "zzz".to_string(),
                }
            };
            spec.adds.push((n, matcher));
        }
        let vss_v: Vec<u32> = vss.iter().copied().collect();
        let n_problems = r.range(1, 3);
        for pi in 0..n_problems {
            let mut p = SnapProblem::default();
            let k = r.range(1, 3);
            for j in 0..k {
                let pick_added = !spec.adds.is_empty() && r.chance(1, 3);
                if pick_added {
                    p.requirements.push(SnapReq::Single(SnapVs::Added(r.below(spec.adds.len()))));
                } else if !vss_v.is_empty() {
                    let v = if pi == 0 && j == 0 {
                        *vss_v.last().unwrap()
                    } else {
                        *r.pick(&vss_v)
                    };
                    p.requirements.push(SnapReq::Single(SnapVs::Captured(v)));
                }
            }
            // unions captured through a solvable's requirements can be used as root requirements too
            let captured_unions: Vec<u32> = w
                .unions
                .iter()
                .filter(|(_, m)| m.iter().all(|v| vss.contains(v)))
                .filter(|(u, _)| {
                    solv.iter().any(|s| match w.known_deps(*s) {
                        Some((reqs, _)) => reqs.contains(&Req::Union(**u)),
                        None => false,
                    })
                })
                .map(|(u, _)| *u)
                .collect();
            if !captured_unions.is_empty() && r.chance(1, 4) {
                p.requirements.push(SnapReq::Union(*r.pick(&captured_unions)));
            }
            if !vss_v.is_empty() && r.chance(1, 4) {
                p.constraints.push(SnapVs::Captured(*r.pick(&vss_v)));
            }
            if !spec.adds.is_empty() && r.chance(1, 6) {
                p.constraints.push(SnapVs::Added(r.below(spec.adds.len())));
            }
            if !p.requirements.is_empty() {
                spec.problems.push(p);
            }
        }
        let mut sc = Scenario::basic(w, ProblemSpec::default());
        sc.solves.clear();
        let mut cr = Rng::stream(seed, "config");
        gen_config(&mut cr, &mut sc, None);
        sc.hash_salt = Rng::stream(seed, "hash_salt").next_u64();
        sc.extra = Some(Extra::Snapshot(spec));
        vec![sc]
    }
    fn judge(&self, sc: &Scenario) -> Verdict {
        let Some(Extra::Snapshot(spec)) = &sc.extra else {
            let mut v = Verdict::default();
            v.skipped_pre = true;
            return v;
        };
        let w = &sc.world;
        // well-formedness of the spec w.r.t. the (possibly minimised) world
        let (names, solv, vss) = closure_checked(w, spec);
        let mut v = Verdict::default();
        let spec_ok = spec.seed_names.iter().all(|n| w.packages.contains_key(n))
            && spec.seed_version_sets.iter().all(|x| w.version_sets.contains_key(x))
            && spec.seed_solvables.iter().all(|x| w.solvables.contains_key(x))
            && spec.adds.iter().all(|(n, _)| names.contains(n))
            && w.packages.values().all(|p| p.favored.is_none() && p.locked.is_none())
            && spec.problems.iter().all(|p| {
                p.requirements.iter().all(|r| match r {
                    SnapReq::Single(SnapVs::Captured(x)) => vss.contains(x),
                    SnapReq::Single(SnapVs::Added(i)) => *i < spec.adds.len(),
                    SnapReq::Union(u) => w.unions.get(u).map(|m| m.iter().all(|x| vss.contains(x))).unwrap_or(false)
                        && solv.iter().any(|s| matches!(w.known_deps(*s), Some((reqs, _)) if reqs.contains(&Req::Union(*u)))),
                }) && p.constraints.iter().all(|c| match c {
                    SnapVs::Captured(x) => vss.contains(x),
                    SnapVs::Added(i) => *i < spec.adds.len(),
                })
            });
        if !spec_ok {
            v.skipped_pre = true;
            return v;
        }
        v.key = crate::prng::mix(&[w.shape_hash(), crate::prng::fnv(&format!("{spec:?}"))]);
        v.trace_hash = v.key;
        set_salt(sc.hash_salt);
        let core = make_core(sc);
        let provider = SimProvider::new(core.clone());
        // ---- capture
        let cap = catch_unwind(AssertUnwindSafe(|| {
            let fut = DependencySnapshot::from_provider_async(
                provider.clone(),
                spec.seed_names.iter().map(|n| NameId(*n)),
                spec.seed_version_sets.iter().map(|x| VersionSetId(*x)),
                spec.seed_solvables.iter().map(|x| SolvableId(*x)),
            );
            match sc.runtime {
                RuntimeKind::Sim => SimRuntime { core: core.clone() }.block_on(fut),
                RuntimeKind::NowOrNever => resolvo::runtime::NowOrNeverRuntime.block_on(fut),
            }
        }));
        v.faults = {
            let rec_stats = core.stats.borrow().clone();
            let mut m: BTreeMap<&'static str, u64> = BTreeMap::new();
            m.insert("hash_salt", 1);
            if spec.serde_cycles > 0 {
                m.insert("serde_cycle", spec.serde_cycles as u64);
            }
            if !spec.adds.is_empty() {
                m.insert("add_package_requirement", spec.adds.len() as u64);
            }
            if spec.timeout_after.is_some() {
                m.insert("with_timeout_between_adds", 1);
            }
            if rec_stats.completions > 0 {
                m.insert("reorder", rec_stats.completions);
            }
            m
        };
        v.quiescent_points = core.stats.borrow().quiescent_points;
        v.max_in_flight = core.stats.borrow().max_in_flight;
        let mut snap = match cap {
            Ok(Ok(s)) => s,
            Ok(Err(_)) => {
                v.evaluated = true;
                v.violate("capture-cancelled", "from_provider_async returned Err without cancellation");
                return v;
            }
            Err(payload) => {
                v.evaluated = true;
                let p = panic_info();
                if payload.downcast_ref::<crate::core::SimAbort>().is_some() {
                    v.violate("capture-hang", "snapshot capture waits although nothing is in flight / budget exceeded");
                } else {
                    v.violate(format!("capture-panic:{}", p.site()), format!("panic during capture at {}:{}: {}", p.file, p.line, p.msg));
                }
                return v;
            }
        };
        v.evaluated = true;
        // ---- durable state: serde round trips
        for _ in 0..spec.serde_cycles {
            let r = catch_unwind(AssertUnwindSafe(|| {
                let js = serde_json::to_string(&snap).expect("serialize snapshot");
                serde_json::from_str::<DependencySnapshot>(&js)
            }));
            match r {
                Ok(Ok(s)) => snap = s,
                Ok(Err(e)) => {
                    v.violate("serde-error", format!("snapshot does not survive a serde_json round trip: {e}"));
                    return v;
                }
                Err(_) => {
                    let p = panic_info();
                    v.violate(format!("serde-panic:{}", p.site()), format!("panic during serde round trip at {}:{}: {}", p.file, p.line, p.msg));
                    return v;
                }
            }
        }
        // ---- content of the copy
        for n in &names {
            match snap.packages.get(NameId(*n)) {
                None => {
                    v.violate("missing-package", format!("package {n} was reachable from the seeds but is not in the snapshot"));
                    return v;
                }
                Some(p) => {
                    let got: Vec<u32> = p.solvables.iter().map(|s| s.0).collect();
                    if got != w.cands(*n) {
                        v.violate("package-candidates", format!("package {n}: snapshot lists {got:?}, live provider {:?}", w.cands(*n)));
                        return v;
                    }
                    // candidate preference order
                    let mut by_order = got.clone();
                    let mut missing_solvable = false;
                    by_order.sort_by_key(|s| match snap.solvables.get(SolvableId(*s)) {
                        Some(x) => x.order,
                        None => {
                            missing_solvable = true;
                            0
                        }
                    });
                    if missing_solvable {
                        v.violate("missing-solvable", format!("a candidate of package {n} is not in the snapshot"));
                        return v;
                    }
                    let mut live = got.clone();
                    w.sort_by_rank(&mut live);
                    if by_order != live {
                        v.violate("order", format!("package {n}: candidates by captured order {by_order:?}, live sort_candidates order {live:?}"));
                        return v;
                    }
                }
            }
        }
        for x in &vss {
            if snap.version_sets.get(VersionSetId(*x)).is_none() {
                v.violate("missing-version-set", format!("version set {x} was reachable from the seeds but is not in the snapshot"));
                return v;
            }
        }
        // ---- reference world extended with the added version sets (reference-side ids)
        let mut wx = w.clone();
        let mut added_ref_ids = Vec::new();
        let mut next_id = wx.version_sets.keys().max().map(|m| m + 1000).unwrap_or(1000);
        for (n, matcher) in &spec.adds {
            let mut matches: Vec<u32> = w
                .cands(*n)
                .iter()
                .copied()
                .filter(|s| matcher == "*" || format!("s{s}").contains(matcher.as_str()))
                .collect();
            matches.sort();
            wx.version_sets.insert(next_id, VersionSet { name: *n, matches });
            added_ref_ids.push(next_id);
            next_id += 1;
        }
        // ---- provider history + problems
        let nsolv = solv.len();
        let mut solved = 0;
        let problems: Vec<Option<&SnapProblem>> = if spec.problems.is_empty() {
            vec![None]
        } else {
            spec.problems.iter().map(Some).collect()
        };
        for (pi, sp) in problems.iter().enumerate() {
            let r = catch_unwind(AssertUnwindSafe(|| -> Result<Option<(ProblemSpec, Result<Vec<u32>, bool>)>, (String, String)> {
                let mut prov = snap.provider();
                let far = std::time::SystemTime::now() + std::time::Duration::from_secs(86_400);
                let mut added_ids: Vec<u32> = Vec::new();
                if spec.timeout_after == Some(0) {
                    prov = prov.with_timeout(far);
                }
                for (ai, (n, matcher)) in spec.adds.iter().enumerate() {
                    if ai > 0 && spec.timeout_after == Some(ai) {
                        prov = prov.with_timeout(far);
                    }
                    let id = prov.add_package_requirement(NameId(*n), matcher);
                    if vss.contains(&id.0) {
                        return Err(("added-id-aliases-captured".into(), format!("add_package_requirement returned id {} which is a captured version set", id.0)));
                    }
                    if added_ids.contains(&id.0) {
                        return Err(("added-id-repeated".into(), format!("add_package_requirement returned id {} twice", id.0)));
                    }
                    added_ids.push(id.0);
                }
                // captured version sets stay resolvable and unshadowed
                for x in &vss {
                    let id = VersionSetId(*x);
                    let name = prov.version_set_name(id);
                    if name.0 != w.vs_name(*x) {
                        return Err(("captured-shadowed:name".into(), format!("after {} adds version set {x} resolves to package {} instead of {}", spec.adds.len(), name.0, w.vs_name(*x))));
                    }
                    let disp = prov.display_version_set(id).to_string();
                    if disp != format!("vs{x}") {
                        return Err(("captured-shadowed:display".into(), format!("version set {x} displays as {disp:?}")));
                    }
                    let cands: Vec<SolvableId> = w.cands(w.vs_name(*x)).iter().map(|s| SolvableId(*s)).collect();
                    let m = futures::FutureExt::now_or_never(prov.filter_candidates(&cands, id, false)).expect("snapshot provider yields");
                    let mut got: Vec<u32> = m.iter().map(|s| s.0).collect();
                    got.sort();
                    let mut want = w.matching(*x);
                    want.sort();
                    if got != want {
                        return Err(("captured-shadowed:matches".into(), format!("version set {x} matches {got:?} in the snapshot provider, {:?} live", w.matching(*x))));
                    }
                }
                for (i, id) in added_ids.iter().enumerate() {
                    let cands: Vec<SolvableId> = w.cands(spec.adds[i].0).iter().map(|s| SolvableId(*s)).collect();
                    let m = futures::FutureExt::now_or_never(prov.filter_candidates(&cands, VersionSetId(*id), false)).expect("snapshot provider yields");
                    let mut got: Vec<u32> = m.iter().map(|s| s.0).collect();
                    got.sort();
                    let mut want = wx.matching(added_ref_ids[i]);
                    want.sort();
                    if got != want || prov.version_set_name(VersionSetId(*id)).0 != spec.adds[i].0 {
                        return Err(("added-wrong".into(), format!("added version set #{i} ({:?}) matches {got:?}, expected {:?}", spec.adds[i], wx.matching(added_ref_ids[i]))));
                    }
                }
                let Some(sp) = sp else { return Ok(None) };
                let map_vs = |x: &SnapVs, reference: bool| -> u32 {
                    match x {
                        SnapVs::Captured(v) => *v,
                        SnapVs::Added(i) => {
                            if reference {
                                added_ref_ids[*i]
                            } else {
                                added_ids[*i]
                            }
                        }
                    }
                };
                let mk = |reference: bool| -> ProblemSpec {
                    ProblemSpec {
                        requirements: sp
                            .requirements
                            .iter()
                            .map(|r| match r {
                                SnapReq::Single(x) => Req::Single(map_vs(x, reference)),
                                SnapReq::Union(u) => Req::Union(*u),
                            })
                            .collect(),
                        constraints: sp.constraints.iter().map(|c| map_vs(c, reference)).collect(),
                        soft: vec![],
                    }
                };
                let ref_problem = mk(true);
                let real = mk(false);
                let mut solver = Solver::new(prov);
                let problem = Problem::new()
                    .requirements(real.requirements.iter().map(to_requirement).collect())
                    .constraints(real.constraints.iter().map(|x| VersionSetId(*x)).collect());
                let res = match solver.solve(problem) {
                    Ok(s) => Ok(s.into_iter().map(|x| x.0).collect()),
                    Err(UnsolvableOrCancelled::Unsolvable(_)) => Err(false),
                    Err(UnsolvableOrCancelled::Cancelled(_)) => Err(true),
                };
                Ok(Some((ref_problem, res)))
            }));
            match r {
                Err(_) => {
                    let p = panic_info();
                    if p.file.contains("snapshot.rs") || p.file.contains("mapping.rs") {
                        v.violate(format!("snapshot-panic:{}", p.site()), format!("problem #{pi}: panic at {}:{}: {}", p.file, p.line, p.msg));
                        return v;
                    }
                    v.aborted_other = true;
                }
                Ok(Err((c, d))) => {
                    v.violate(c, d);
                    return v;
                }
                Ok(Ok(None)) => {}
                Ok(Ok(Some((rp, res)))) => match res {
                    Err(true) => v.violate("spurious-cancel", "solve through the snapshot returned Cancelled"),
                    res => {
                        let got = res.is_ok();
                        match ref_verdict(&wx, &rp) {
                            None => v.inconclusive = true,
                            Some(want) => {
                                solved += 1;
                                if got != want {
                                    v.violate("verdict", format!("problem #{pi}: snapshot verdict {got}, live/reference verdict {want}"));
                                    return v;
                                }
                                if let Ok(s) = &res {
                                    if let Some((cat, text)) = validity_errors(&wx, &rp, s).first() {
                                        v.violate(format!("invalid:{cat}"), format!("problem #{pi}: solution {s:?} through the snapshot is not valid against the live data: {text}"));
                                        return v;
                                    }
                                    let union_free = rp.requirements.iter().all(|r| matches!(r, Req::Single(_)))
                                        && solv.iter().all(|x| match wx.known_deps(*x) {
                                            Some((reqs, _)) => reqs.iter().all(|r| matches!(r, Req::Single(_))),
                                            None => true,
                                        });
                                    let fc = first_choice(&wx, &rp, &[]);
                                    if union_free && fc.consistent_exclusive {
                                        let set: BTreeSet<u32> = s.iter().copied().collect();
                                        if set != fc.set {
                                            v.violate("preference-order", format!("problem #{pi}: snapshot solution {s:?} differs from the live first-choice closure {:?}", fc.set));
                                            return v;
                                        }
                                    }
                                }
                            }
                        }
                    }
                },
            }
        }
        v.nontrivial = nsolv >= 3 && solved >= 1;
        v.summary = format!("snapshot of {} packages / {} solvables / {} version sets, {} adds, {} problems solved", names.len(), nsolv, vss.len(), spec.adds.len(), solved);
        v
    }
}

fn closure_checked(w: &World, spec: &SnapSpec) -> (BTreeSet<u32>, BTreeSet<u32>, BTreeSet<u32>) {
    let ok = spec.seed_names.iter().all(|n| w.packages.contains_key(n))
        && spec.seed_version_sets.iter().all(|x| w.version_sets.contains_key(x))
        && spec.seed_solvables.iter().all(|x| w.solvables.contains_key(x));
    if !ok {
        return (BTreeSet::new(), BTreeSet::new(), BTreeSet::new());
    }
    closure(w, spec)
}

// =============================================================================================
// C20

pub struct C20;

fn ids(xs: &[SolvableId]) -> Vec<u32> {
    xs.iter().map(|s| s.0).collect()
}

/// Polls the inner future a limited number of times, then drops it unfinished.
struct PollThenDrop<F> {
    inner: Option<std::pin::Pin<Box<F>>>,
    remaining: u32,
}

impl<F: std::future::Future> std::future::Future for PollThenDrop<F> {
    type Output = ();
    fn poll(mut self: std::pin::Pin<&mut Self>, cx: &mut std::task::Context<'_>) -> std::task::Poll<()> {
        let Some(inner) = self.inner.as_mut() else {
            return std::task::Poll::Ready(());
        };
        match inner.as_mut().poll(cx) {
            std::task::Poll::Ready(_) => {
                self.inner = None;
                std::task::Poll::Ready(())
            }
            std::task::Poll::Pending => {
                if self.remaining == 0 {
                    self.inner = None; // dropped in flight
                    std::task::Poll::Ready(())
                } else {
                    self.remaining -= 1;
                    std::task::Poll::Pending
                }
            }
        }
    }
}

/// Perform one cache operation; compare the answer with the tables.
thread_local! {
    /// cache queries (by their debug text) that have completed with an answer on the cache under test
    static ANSWERED: std::cell::RefCell<BTreeSet<String>> = const { std::cell::RefCell::new(BTreeSet::new()) };
}

/// Perform one cache operation; compare the answer with the tables. A query that was answered before must be answered
/// again - from the cache, whatever the provider says about cancellation in the meantime.
async fn do_op(cache: &SolverCache<SimProvider>, w: &World, core: &crate::core::SimCore, op: &CacheOp, answers: &mut Vec<String>) -> Option<(String, String)> {
    let key = format!("{op:?}");
    let repeat = !matches!(op, CacheOp::AbandonCandidates(..) | CacheOp::Available(_)) && ANSWERED.with(|a| a.borrow().contains(&key));
    let n_before = answers.len();
    let r = do_op_inner(cache, w, core, op, answers).await;
    if matches!(op, CacheOp::AbandonCandidates(..) | CacheOp::Available(_)) {
        return r;
    }
    if answers.len() > n_before {
        ANSWERED.with(|a| a.borrow_mut().insert(key));
    } else if repeat && r.is_none() {
        return Some(("repeat-fails".into(), format!("{op:?} was answered before, but the repeated query returned Err (cancellation was signalled in between): a cached answer needs no provider")));
    }
    r
}

async fn do_op_inner(cache: &SolverCache<SimProvider>, w: &World, core: &crate::core::SimCore, op: &CacheOp, answers: &mut Vec<String>) -> Option<(String, String)> {
    match op {
        CacheOp::Candidates(n) => match cache.get_or_cache_candidates(NameId(*n)).await {
            Ok(c) => {
                let got = ids(&c.candidates);
                answers.push(format!("{got:?}"));
                if got != w.cands(*n) {
                    return Some(("candidates".into(), format!("get_or_cache_candidates({n}) = {got:?}, provider says {:?}", w.cands(*n))));
                }
                let p = w.packages.get(n).filter(|p| !p.missing);
                let fav = p.and_then(|p| p.favored);
                let lock = p.and_then(|p| p.locked);
                if c.favored.map(|s| s.0) != fav || c.locked.map(|s| s.0) != lock {
                    return Some(("candidates-meta".into(), format!("favored/locked of package {n} differ from the provider's answer")));
                }
                None
            }
            Err(_) => cancelled_ok(core),
        },
        CacheOp::Matching(x) => match cache.get_or_cache_matching_candidates(VersionSetId(*x)).await {
            Ok(c) => {
                let got = ids(c);
                answers.push(format!("{got:?}"));
                if got != w.matching(*x) {
                    return Some(("matching".into(), format!("matching candidates of vs{x} = {got:?}, filter_candidates defines {:?}", w.matching(*x))));
                }
                None
            }
            Err(_) => cancelled_ok(core),
        },
        CacheOp::NonMatching(x) => match cache.get_or_cache_non_matching_candidates(VersionSetId(*x)).await {
            Ok(c) => {
                let got = ids(c);
                answers.push(format!("{got:?}"));
                if got != w.non_matching(*x) {
                    return Some(("non-matching".into(), format!("non-matching candidates of vs{x} = {got:?}, filter_candidates defines {:?}", w.non_matching(*x))));
                }
                None
            }
            Err(_) => cancelled_ok(core),
        },
        CacheOp::Sorted(r) => match cache.get_or_cache_sorted_candidates(to_requirement(r)).await {
            Ok(c) => {
                let got = ids(c);
                answers.push(format!("{got:?}"));
                let want = w.req_cands(r);
                if got != want {
                    return Some(("sorted".into(), format!("sorted candidates of {r:?} = {got:?}; matching in sort order with favored first is {want:?}")));
                }
                None
            }
            Err(_) => cancelled_ok(core),
        },
        CacheOp::Deps(s) => match cache.get_or_cache_dependencies(SolvableId(*s)).await {
            Ok(d) => {
                answers.push(format!("{d:?}"));
                let want = SimProvider::new_ref(core, w).dependencies_answer_static(*s);
                if !deps_eq(d, &want) {
                    return Some(("dependencies".into(), format!("get_or_cache_dependencies({s}) differs from the provider's answer")));
                }
                None
            }
            Err(_) => cancelled_ok(core),
        },
        CacheOp::AbandonCandidates(n, polls) => {
            PollThenDrop {
                inner: Some(Box::pin(cache.get_or_cache_candidates(NameId(*n)))),
                remaining: *polls,
            }
            .await;
            answers.push("abandoned".into());
            None
        }
        CacheOp::Available(s) => {
            let got = cache.are_dependencies_available_for(SolvableId(*s));
            answers.push(format!("{got}"));
            // expected from the history: hinted by an already received candidates answer, or dependencies already fetched
            let log = core.log.borrow();
            let mut rid_info: BTreeMap<u64, (Kind, u32)> = BTreeMap::new();
            let mut cand_received: BTreeSet<u32> = BTreeSet::new();
            let mut deps_received: BTreeSet<u32> = BTreeSet::new();
            for e in log.iter() {
                match e {
                    Ev::Start { rid, kind, arg, .. } => {
                        rid_info.insert(*rid, (*kind, *arg));
                    }
                    Ev::Deliver { rid } => match rid_info.get(rid) {
                        Some((Kind::Cand, n)) => {
                            cand_received.insert(*n);
                        }
                        Some((Kind::Deps, x)) => {
                            deps_received.insert(*x);
                        }
                        _ => {}
                    },
                    _ => {}
                }
            }
            let name = w.solvable_name(*s);
            // (a candidates answer may also announce solvables of other packages)
            let announced = cand_received.iter().any(|n| w.hinted_by(*n, *s));
            let want = deps_received.contains(s) || announced;
            if got != want {
                return Some(("availability".into(), format!("are_dependencies_available_for({s}) = {got}, expected {want} (candidates of its package received: {}, announced by a received candidates answer: {}, dependencies fetched: {})", cand_received.contains(&name), announced, deps_received.contains(s))));
            }
            None
        }
    }
}

/// An `Err` from a cache query is legitimate only if the cancellation fault fired.
fn cancelled_ok(core: &crate::core::SimCore) -> Option<(String, String)> {
    if core.stats.borrow().cancel_fired > 0 {
        None
    } else {
        Some(("spurious-cancel".into(), "cache query returned Err without cancellation".into()))
    }
}

impl SimProvider {
    fn new_ref<'a>(_core: &'a crate::core::SimCore, w: &'a World) -> DepsHelper<'a> {
        DepsHelper { w }
    }
}

struct DepsHelper<'a> {
    w: &'a World,
}

impl DepsHelper<'_> {
    fn dependencies_answer_static(&self, s: u32) -> resolvo::Dependencies {
        match &self.w.solvables[&s].deps {
            Deps::Unknown(r) => resolvo::Dependencies::Unknown(resolvo::StringId(*r)),
            Deps::Known { requirements, constrains } => resolvo::Dependencies::Known(resolvo::KnownDependencies {
                requirements: requirements.iter().map(to_requirement).collect(),
                constrains: constrains.iter().map(|x| VersionSetId(*x)).collect(),
            }),
        }
    }
}

impl Property for C20 {
    fn id(&self) -> &'static str {
        "C20"
    }
    fn runs(&self, tier: Tier) -> u64 {
        match tier {
            Tier::Quick => 200_000,
            Tier::Thorough => 4_000_000,
        }
    }
    fn rule(&self) -> &'static str {
        "2-6 concurrent client tasks joined under the simulator's executor issue seeded sequences of get_or_cache_candidates / matching / non_matching / sorted_candidates / dependencies and are_dependencies_available_for against one SolverCache over a seeded world with all provider methods yielding (identical queries overlap in flight), followed by a sequential phase repeating every query; plus the same queries issued re-entrantly from sort_candidates; oracle: every answer equals the value computed from the provider tables (partition in list order, sort order with favored rotated to the front, availability = hinted-by-received-candidates or already fetched), phase-2 answers are identical and cause no provider call, get_candidates starts at most once per name, references held since phase 1 are unchanged at the end, a query that was answered before is answered again even while the provider signals cancellation; on a quarter of the seeds candidates answers also announce solvables of other packages in their Some-hint; non-trivial = >= 6 operations and >= 2 quiescent points; distinct = (world, completion trace, spec) hash"
    }
    fn gen(&self, seed: u64, _tier: Tier) -> Vec<Scenario> {
        let base = match seed % 2 {
            0 => GenParams::wide(),
            _ => GenParams::conflict_free(),
        };
        let mut params = base;
        params.p_favored = 6;
        params.hint_weights = [2, 3, 3, 4];
        params.p_big_package = 2;
        let mut wr = Rng::stream(seed, "world");
        let (mut w, _) = gen_world(&mut wr, &params, 1);
        // on some seeds a candidates answer also announces solvables of other packages (with higher and lower ids)
        {
            let mut fr = Rng::stream(seed, "foreign-hints");
            let all: Vec<u32> = w.solvables.keys().copied().collect();
            if fr.chance(1, 4) && !all.is_empty() {
                let names: Vec<u32> = w.packages.keys().copied().collect();
                for n in names {
                    let p = w.packages.get_mut(&n).unwrap();
                    if p.missing || !fr.chance(1, 3) {
                        continue;
                    }
                    let mut list = match &p.hint {
                        Hint::Some(v) => v.clone(),
                        Hint::None => vec![],
                        Hint::All => continue,
                    };
                    for _ in 0..fr.range(1, 2) {
                        let x = *fr.pick(&all);
                        if !list.contains(&x) {
                            list.push(x);
                        }
                    }
                    p.hint = Hint::Some(list);
                }
            }
        }
        {
            let mut hr = Rng::stream(seed, "huge-ids");
            if hr.chance(1, 6) {
                crate::gen::huge_handle_ids(&mut hr, &mut w, &mut []);
            }
            if hr.chance(1, 6) {
                crate::gen::slice_dependent_ranking(&mut hr, &mut w);
            }
        }
        let mut r = Rng::stream(seed, "clients");
        let names: Vec<u32> = w.packages.keys().copied().collect();
        let vss: Vec<u32> = w.version_sets.keys().copied().collect();
        let uns: Vec<u32> = w.unions.keys().copied().collect();
        let sol: Vec<u32> = w.solvables.keys().copied().collect();
        let n_clients = r.range(2, 6);
        let mut clients = Vec::new();
        for _ in 0..n_clients {
            let n_ops = r.range(1, 8);
            let mut ops = Vec::new();
            for _ in 0..n_ops {
                let op = match r.below(10) {
                    9 => names.first().map(|_| CacheOp::AbandonCandidates(*r.pick(&names), r.below(3) as u32)),
                    0 => names.first().map(|_| CacheOp::Candidates(*r.pick(&names))),
                    1 | 2 => vss.first().map(|_| CacheOp::Matching(*r.pick(&vss))),
                    3 => vss.first().map(|_| CacheOp::NonMatching(*r.pick(&vss))),
                    4 | 5 => {
                        if !uns.is_empty() && r.chance(1, 3) {
                            Some(CacheOp::Sorted(Req::Union(*r.pick(&uns))))
                        } else {
                            vss.first().map(|_| CacheOp::Sorted(Req::Single(*r.pick(&vss))))
                        }
                    }
                    6 => sol.first().map(|_| CacheOp::Deps(*r.pick(&sol))),
                    _ => sol.first().map(|_| CacheOp::Available(*r.pick(&sol))),
                };
                if let Some(op) = op {
                    ops.push(op);
                }
            }
            clients.push(ops);
        }
        let mut sc = Scenario::basic(w, ProblemSpec::default());
        sc.solves.clear();
        let mut cr = Rng::stream(seed, "config");
        gen_config(&mut cr, &mut sc, Some(true));
        sc.yield_mask = match r.below(4) {
            0 => Y_CAND | Y_DEPS,
            1 => Y_CAND | Y_FILTER,
            _ => Y_CAND | Y_DEPS | Y_FILTER | Y_SORT,
        };
        sc.reentrant_sort = r.chance(1, 3);
        sc.hash_salt = Rng::stream(seed, "hash_salt").next_u64();
        let cancel = if r.chance(1, 4) {
            Some(crate::core::CancelPlan {
                at_poll: r.below(6) as u64,
                mode: if r.chance(1, 2) { crate::core::CancelMode::Transient } else { crate::core::CancelMode::Persistent },
            })
        } else {
            None
        };
        sc.extra = Some(Extra::Cache(CacheSpec { clients, cancel }));
        vec![sc]
    }
    fn judge(&self, sc: &Scenario) -> Verdict {
        let Some(Extra::Cache(spec)) = &sc.extra else {
            let mut v = Verdict::default();
            v.skipped_pre = true;
            return v;
        };
        let w = &sc.world;
        // spec must refer to existing things (minimisation may remove them)
        let ok = spec.clients.iter().flatten().all(|op| match op {
            CacheOp::Candidates(n) | CacheOp::AbandonCandidates(n, _) => w.packages.contains_key(n),
            CacheOp::Matching(x) | CacheOp::NonMatching(x) => w.version_sets.contains_key(x),
            CacheOp::Sorted(Req::Single(x)) => w.version_sets.contains_key(x),
            CacheOp::Sorted(Req::Union(u)) => w.unions.contains_key(u),
            CacheOp::Deps(s) | CacheOp::Available(s) => w.solvables.contains_key(s),
        });
        let mut v = Verdict::default();
        if !ok || sc.runtime != RuntimeKind::Sim {
            v.skipped_pre = true;
            return v;
        }
        set_salt(sc.hash_salt);
        let core = make_core(sc);
        let provider = SimProvider::new(core.clone());
        let cache = SolverCache::new(provider);
        ANSWERED.with(|a| a.borrow_mut().clear());
        let rt = SimRuntime { core: core.clone() };
        let res = catch_unwind(AssertUnwindSafe(|| {
            // phase 1: concurrent clients (optionally with a cancellation fault)
            *core.cancel_plan.borrow_mut() = spec.cancel.clone();
            core.cancel_polls.set(0);
            let mut found: Option<(String, String)> = None;
            let mut answers1: Vec<Vec<String>> = Vec::new();
            let mut held: Vec<(&[SolvableId], Vec<u32>)> = Vec::new();
            {
                let futs = spec.clients.iter().map(|ops| {
                    let cache = &cache;
                    let core = &core;
                    async move {
                        let mut answers = Vec::new();
                        let mut bad = None;
                        for op in ops {
                            if let Some(b) = do_op(cache, w, core, op, &mut answers).await {
                                bad = Some(b);
                                break;
                            }
                        }
                        (answers, bad)
                    }
                });
                let results = rt.block_on(futures::future::join_all(futs));
                for (a, b) in results {
                    answers1.push(a);
                    if found.is_none() {
                        found = b;
                    }
                }
            }
            *core.cancel_plan.borrow_mut() = None;
            let cancelled = core.stats.borrow().cancel_fired > 0;
            if found.is_some() {
                return found;
            }
            // references into the frozen storage, held across later insertions
            for ops in &spec.clients {
                for op in ops {
                    if let CacheOp::Matching(x) = op {
                        let r = futures::FutureExt::now_or_never(cache.get_or_cache_matching_candidates(VersionSetId(*x)));
                        if let Some(Ok(slice)) = r {
                            held.push((slice, ids(slice)));
                        }
                    }
                }
            }
            // phase 2: sequential repetition; no provider call may be started, answers identical
            let before = core.seq();
            for (ci, ops) in spec.clients.iter().enumerate() {
                let mut answers = Vec::new();
                for op in ops {
                    if matches!(op, CacheOp::Available(_) | CacheOp::AbandonCandidates(..)) {
                        // availability legitimately changes as more metadata arrives
                        answers.push(answers1.get(ci).and_then(|a| a.get(answers.len())).cloned().unwrap_or_default());
                        continue;
                    }
                    let r = rt.block_on(do_op(&cache, w, &core, op, &mut answers));
                    if r.is_some() {
                        return r;
                    }
                }
                if !cancelled && answers != answers1[ci] {
                    return Some(("repeat-differs".into(), format!("client {ci}: repeated queries answered {answers:?}, first time {:?}", answers1[ci])));
                }
            }
            let log = core.log.borrow();
            for e in log.iter().skip(if cancelled { usize::MAX } else { before }) {
                if let Ev::Start { kind, arg, .. } = e {
                    return Some(("repeat-consults-provider".into(), format!("a repeated query called the provider again: {kind:?}({arg})")));
                }
            }
            drop(log);
            // more insertions, then compare the held references
            for x in w.version_sets.keys() {
                let _ = rt.block_on(cache.get_or_cache_matching_candidates(VersionSetId(*x)));
                let _ = rt.block_on(cache.get_or_cache_non_matching_candidates(VersionSetId(*x)));
            }
            for (slice, copy) in &held {
                if ids(slice) != *copy {
                    return Some(("unstable-reference".into(), "a slice returned earlier changed after later insertions".into()));
                }
            }
            None
        }));
        let rec_log = core.log.borrow().clone();
        let stats = core.stats.borrow().clone();
        let fake = crate::run::RunRecord {
            outcomes: vec![],
            dumps: vec![],
            online_violations: vec![],
            online_states: 0,
            log: rec_log,
            stats: stats.clone(),
            trace: vec![],
            cache_mismatch: core.cache_mismatch.borrow().clone(),
            solve_spans: vec![],
        };
        let th = trace_hash(&fake);
        v.trace_hash = th;
        v.key = crate::prng::mix(&[w.shape_hash(), th, crate::prng::fnv(&format!("{spec:?}"))]);
        v.faults = fault_counts(sc, &fake);
        v.quiescent_points = stats.quiescent_points;
        v.max_in_flight = stats.max_in_flight;
        v.virtual_time = stats.virtual_time;
        let n_ops: usize = spec.clients.iter().map(|c| c.len()).sum();
        v.nontrivial = n_ops >= 6 && stats.quiescent_points >= 2;
        v.summary = format!("{} clients, {} ops, {} provider calls", spec.clients.len(), n_ops, stats.completions);
        match res {
            Ok(None) => {
                v.evaluated = true;
                let abandons = spec.clients.iter().flatten().any(|op| matches!(op, CacheOp::AbandonCandidates(..)));
                if let Some(a) = duplicate_request_ex(&fake, Kind::Cand, false, abandons) {
                    v.violate("dup:cand", format!("get_candidates({a}) started twice for overlapping queries"));
                }
                if let Some(m) = fake.cache_mismatch.first() {
                    v.violate("reentrant-mismatch", m.clone());
                }
            }
            Ok(Some((c, d))) => {
                v.evaluated = true;
                v.violate(c, d);
            }
            Err(payload) => {
                v.evaluated = true;
                let p = panic_info();
                if let Some(a) = payload.downcast_ref::<crate::core::SimAbort>() {
                    v.violate(format!("cache-hang:{a:?}"), "cache query waits although nothing is in flight");
                } else {
                    v.violate(format!("cache-panic:{}", p.site()), format!("panic at {}:{}: {}", p.file, p.line, p.msg));
                }
            }
        }
        let _ = Policy::Fifo;
        let _ = Hint::None;
        v
    }
}
