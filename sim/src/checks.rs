//! Properties C01–C14: generators and oracles.

use crate::core::{CancelMode, CancelPlan, Ev, Kind, Policy, Token, Y_CAND, Y_DEPS};
use crate::gen::{gen_activity, gen_config, gen_world, GenParams};
use crate::prng::{mix, Rng};
use crate::props::*;
use crate::reference::{self, first_choice, reach_in_solution, validity_errors, Leniency, Sat};
use crate::run::{execute, execute_with_salt, GEdge, GNode, Outcome, RunRecord, RuntimeKind, Scenario, SolveSpec};
use crate::world::{Hint, ProblemSpec, Req, World};
use std::collections::{BTreeMap, BTreeSet};

fn hard_only(p: &ProblemSpec) -> ProblemSpec {
    ProblemSpec {
        requirements: p.requirements.clone(),
        constraints: p.constraints.clone(),
        soft: vec![],
    }
}

fn no_hints(w: &mut World) {
    // "no availability hints" can be spelled `None` or as an empty list
    for (n, p) in w.packages.iter_mut() {
        p.hint = if n % 3 == 1 { Hint::Some(vec![]) } else { Hint::None };
    }
}

/// Build the standard single-solve scenario from a seed and parameters.
fn std_scenario(seed: u64, params: &GenParams, force_async: Option<bool>) -> Scenario {
    let mut wr = Rng::stream(seed, "world");
    let (w, mut ps) = gen_world(&mut wr, params, 1);
    let mut sc = Scenario::basic(w, ps.remove(0));
    let mut cr = Rng::stream(seed, "config");
    gen_config(&mut cr, &mut sc, force_async);
    sc.activity = gen_activity(&mut cr);
    sc.hash_salt = Rng::stream(seed, "hash_salt").next_u64();
    twin_candidates(seed, &mut sc.world, 5);
    // a provider whose ranking depends on the slice it is asked to sort, on one seed in ten
    let mut ar = Rng::stream(seed, "slice-dependent-ranking");
    if ar.chance(1, 10) {
        crate::gen::slice_dependent_ranking(&mut ar, &mut sc.world);
    }
    // opaque handles (version sets, unions, strings) spread over the whole u32 range on one seed in eight
    let mut hr = Rng::stream(seed, "huge-ids");
    if hr.chance(1, 8) {
        let mut ps: Vec<ProblemSpec> = sc.solves.iter().map(|s| s.problem.clone()).collect();
        crate::gen::huge_handle_ids(&mut hr, &mut sc.world, &mut ps);
        for (s, p) in sc.solves.iter_mut().zip(ps) {
            s.problem = p;
        }
    }
    sc
}

/// On a fraction of the seeds: several candidates of a package get identical dependencies (builds of one version).
/// Interchangeable candidates are what the conflict report merges into one line, also inside dependency cycles.
fn twin_candidates(seed: u64, w: &mut crate::world::World, one_in: usize) {
    let mut r = Rng::stream(seed, "twins");
    if !r.chance(1, one_in) {
        return;
    }
    let names: Vec<u32> = w.packages.keys().copied().collect();
    for n in names {
        let cands = w.packages[&n].candidates.clone();
        if cands.len() < 2 || !r.chance(2, 3) {
            continue;
        }
        let base = *r.pick(&cands);
        let deps = w.solvables[&base].deps.clone();
        for c in cands {
            if c != base && r.chance(3, 4) {
                w.solvables.get_mut(&c).unwrap().deps = deps.clone();
            }
        }
    }
}

/// On a fraction of the seeds: few root requirements and soft requirements on packages nobody requests.
fn maybe_unrequested_soft(seed: u64, sc: &mut Scenario, one_in: usize) {
    let mut r = Rng::stream(seed, "unrequested-soft");
    if !r.chance(1, one_in) {
        return;
    }
    let k = r.range(1, 3);
    let keep = r.below(2);
    sc.solves[0].problem.requirements.truncate(keep);
    let mut p = sc.solves[0].problem.clone();
    crate::gen::add_unrequested_soft_packages(&mut r, &mut sc.world, &mut p, k);
    sc.solves[0].problem = p;
}

/// On a fraction of the seeds: the "documented exemption" corner. A soft requirement names a solvable that its
/// package excludes or locks out (legal: it is requested directly), a later soft requirement's dependencies ask
/// for that package (so the exclusion / lock is discovered while the exempt solvable is installed), and further
/// soft requirements on fresh, unrelated packages follow.
fn maybe_exempt_soft_family(seed: u64, sc: &mut Scenario, one_in: usize) {
    use crate::world::{Deps, Package, Solvable, VersionSet};
    let mut r = Rng::stream(seed, "exempt-soft");
    if !r.chance(1, one_in) {
        return;
    }
    let w = &mut sc.world;
    // pick (or make) a package with an excluded or locked-out candidate
    let mut victims: Vec<(u32, u32)> = Vec::new();
    for (n, p) in &w.packages {
        if p.missing {
            continue;
        }
        for (x, _) in &p.excluded {
            victims.push((*n, *x));
        }
        if let Some(l) = p.locked {
            for c in &p.candidates {
                if *c != l {
                    victims.push((*n, *c));
                }
            }
        }
    }
    if victims.is_empty() {
        let with_cands: Vec<u32> = w.packages.iter().filter(|(_, p)| !p.missing && !p.candidates.is_empty()).map(|(n, _)| *n).collect();
        if with_cands.is_empty() {
            return;
        }
        let n = *r.pick(&with_cands);
        let p = w.packages.get_mut(&n).unwrap();
        let x = *r.pick(&p.candidates);
        if r.chance(1, 2) || p.candidates.len() < 2 {
            p.excluded.push((x, 0));
        } else {
            let other = *p.candidates.iter().find(|c| **c != x).unwrap();
            p.locked = Some(other);
        }
        victims.push((n, x));
    }
    // one or two victims (of different packages); y requires the packages of all of them
    let (vn, vx) = *r.pick(&victims);
    let mut chosen = vec![(vn, vx)];
    if r.chance(1, 2) {
        // make sure a second package with an excluded candidate exists
        let others: Vec<u32> = w.packages.iter().filter(|(n, p)| **n != vn && !p.missing && !p.candidates.is_empty()).map(|(n, _)| *n).collect();
        if !others.is_empty() {
            let n2 = *r.pick(&others);
            let p2 = w.packages.get_mut(&n2).unwrap();
            let x2 = *r.pick(&p2.candidates);
            if !p2.excluded.iter().any(|(x, _)| *x == x2) {
                p2.excluded.push((x2, 0));
            }
            chosen.push((n2, x2));
        }
    }
    let mut next_name = w.packages.keys().max().map(|m| m + 1).unwrap_or(0);
    let mut next_s = w.solvables.keys().max().map(|m| m + 1).unwrap_or(0);
    let mut next_vs = w.version_sets.keys().max().map(|m| m + 1).unwrap_or(0);
    let mut new_pkg = |w: &mut crate::world::World, reqs: Vec<Req>| -> u32 {
        let (n, s) = (next_name, next_s);
        next_name += 1;
        next_s += 1;
        w.solvables.insert(s, Solvable { name: n, deps: Deps::Known { requirements: reqs, constrains: vec![] } });
        w.packages.insert(n, Package { candidates: vec![s], rank: vec![s], favored: None, locked: None, excluded: vec![], hint: Hint::None, missing: false });
        s
    };
    let mut y_reqs = Vec::new();
    for (n, x) in &chosen {
        let all = {
            let mut m = w.packages[n].candidates.clone();
            m.sort();
            m
        };
        let vs = next_vs;
        next_vs += 1;
        w.version_sets.insert(vs, VersionSet { name: *n, matches: if r.chance(1, 2) { all } else { vec![*x] } });
        y_reqs.push(Req::Single(vs));
    }
    let y = new_pkg(w, y_reqs);
    let mut soft: Vec<u32> = chosen.iter().map(|(_, x)| *x).collect();
    soft.push(y);
    for _ in 0..r.range(1, 2) {
        soft.push(new_pkg(w, vec![]));
    }
    if r.chance(1, 3) {
        soft.swap(0, 1);
    }
    let p = &mut sc.solves[0].problem;
    if r.chance(1, 2) {
        p.requirements.clear();
        p.constraints.clear();
    }
    let pos = r.below(p.soft.len() + 1);
    for (k, x) in soft.into_iter().enumerate() {
        p.soft.insert(pos + k, x);
    }
}

/// On a fraction of the seeds: a run of soft requirements that are rejected one right after the other. A package Q
/// has 2..4 candidates, each uninstallable for a reason that only shows once it is looked at (Unknown dependencies, a
/// requirement on a package without candidates, a requirement whose version set matches nothing, an exclusion);
/// H requires Q and G requires H. The soft list names some or all of Q's candidates in a row, then H and/or G (which
/// must be rejected too), mixed with installable solvables of fresh packages. A rejected soft requirement is recorded
/// as a decision that has not been propagated when the next one starts.
fn maybe_rejected_soft_run(seed: u64, sc: &mut Scenario, one_in: usize) {
    use crate::world::{Deps, Package, Solvable, VersionSet};
    let mut r = Rng::stream(seed, "rejected-soft-run");
    if !r.chance(1, one_in) {
        return;
    }
    let w = &mut sc.world;
    let mut next_name = w.packages.keys().max().map(|m| m + 1).unwrap_or(0);
    let mut next_s = w.solvables.keys().max().map(|m| m + 1).unwrap_or(0);
    let mut next_vs = w.version_sets.keys().max().map(|m| m + 1).unwrap_or(0);
    let empty = Package { candidates: vec![], rank: vec![], favored: None, locked: None, excluded: vec![], hint: Hint::None, missing: false };
    // a package without candidates, and the package Q
    let dead = next_name;
    next_name += 1;
    w.packages.insert(dead, Package { missing: r.chance(1, 3), ..empty.clone() });
    let q = next_name;
    next_name += 1;
    let m = r.range(2, 4);
    let mut qc = Vec::new();
    let mut excluded = Vec::new();
    for _ in 0..m {
        let s = next_s;
        next_s += 1;
        let deps = match r.below(4) {
            0 => Deps::Unknown(0),
            1 => {
                let vs = next_vs;
                next_vs += 1;
                w.version_sets.insert(vs, VersionSet { name: dead, matches: vec![] });
                Deps::Known { requirements: vec![Req::Single(vs)], constrains: vec![] }
            }
            2 => {
                // a version set of Q itself that matches nothing
                let vs = next_vs;
                next_vs += 1;
                w.version_sets.insert(vs, VersionSet { name: q, matches: vec![] });
                Deps::Known { requirements: vec![Req::Single(vs)], constrains: vec![] }
            }
            _ => {
                excluded.push((s, 0));
                Deps::Known { requirements: vec![], constrains: vec![] }
            }
        };
        w.solvables.insert(s, Solvable { name: q, deps });
        qc.push(s);
    }
    let mut rank = qc.clone();
    r.shuffle(&mut rank);
    let hint = match r.below(4) {
        0 => Hint::All,
        _ => Hint::None,
    };
    w.packages.insert(q, Package { candidates: qc.clone(), rank, favored: None, locked: None, excluded, hint, missing: false });
    let mut single = |w: &mut crate::world::World, reqs: Vec<Req>| -> u32 {
        let (n, s) = (next_name, next_s);
        next_name += 1;
        next_s += 1;
        w.solvables.insert(s, Solvable { name: n, deps: Deps::Known { requirements: reqs, constrains: vec![] } });
        w.packages.insert(n, Package { candidates: vec![s], rank: vec![s], ..empty.clone() });
        s
    };
    let mut sorted_q = qc.clone();
    sorted_q.sort();
    let vs_q = next_vs;
    next_vs += 1;
    w.version_sets.insert(vs_q, VersionSet { name: q, matches: sorted_q });
    let h = single(w, vec![Req::Single(vs_q)]);
    let vs_h = next_vs;
    w.version_sets.insert(vs_h, VersionSet { name: w.solvables[&h].name, matches: vec![h] });
    let g = single(w, vec![Req::Single(vs_h)]);
    // soft list: (optionally H first, so that Q's clauses exist before its candidates are asked for,) a run of Q's
    // candidates, then H and/or G, sprinkled with installable fresh solvables
    let mut soft = Vec::new();
    if r.chance(1, 2) {
        soft.push(if r.chance(1, 2) { h } else { g });
    }
    let mut run = qc.clone();
    r.shuffle(&mut run);
    run.truncate(r.range(2, run.len()));
    soft.extend(run);
    if r.chance(1, 3) {
        soft.push(single(w, vec![]));
    }
    for x in [g, h] {
        if r.chance(2, 3) {
            soft.push(x);
        }
    }
    if r.chance(1, 2) {
        soft.push(single(w, vec![]));
    }
    let p = &mut sc.solves[0].problem;
    if r.chance(1, 2) {
        p.requirements.clear();
        p.constraints.clear();
    }
    let pos = r.below(p.soft.len() + 1);
    for (k, x) in soft.into_iter().enumerate() {
        p.soft.insert(pos + k, x);
    }
}

/// Turns a single-solve scenario into a history on one solver: 1..2 further problems over the same world are put in
/// front of the scenario's own problem (so that the problem the families below shape is solved on a warm solver), and on
/// request some of the earlier solves are cancelled at a seeded poll.
fn prepend_history(seed: u64, sc: &mut Scenario, params: &GenParams, cancel: bool) {
    let mut hr = Rng::stream(seed, "history-prefix");
    let k = hr.range(1, 2);
    let mut b = crate::gen::problems_over(&mut hr, &sc.world, params, k);
    // half of the time an earlier problem is the scenario's own problem plus further requirements (which the later
    // solve then no longer has)
    let main = sc.solves.last().map(|s| s.problem.clone()).unwrap_or_default();
    for p in b.iter_mut() {
        if hr.chance(1, 2) {
            let mut q = main.clone();
            for r in p.requirements.drain(..) {
                if !q.requirements.contains(&r) {
                    q.requirements.push(r);
                }
            }
            q.constraints.extend(p.constraints.drain(..));
            *p = q;
        }
    }
    let mut solves: Vec<SolveSpec> = b.drain(..).map(|p| SolveSpec { problem: p, cancel: None }).collect();
    solves.append(&mut sc.solves);
    sc.solves = solves;
    if cancel {
        sc.spurious_p = 0;
        let base_rec = execute(sc);
        let mut polls: Vec<u64> = Vec::new();
        let mut cur = 0u64;
        for e in &base_rec.log {
            match e {
                Ev::SolveBegin(_) => cur = 0,
                Ev::CancelPoll { .. } => cur += 1,
                Ev::SolveEnd(_) => polls.push(cur),
                _ => {}
            }
        }
        let last = sc.solves.len() - 1;
        for (i, s) in sc.solves.iter_mut().enumerate() {
            if i < last && i < polls.len() && polls[i] > 0 && hr.chance(1, 2) {
                s.cancel = Some(CancelPlan { at_poll: hr.below(polls[i] as usize) as u64, mode: CancelMode::Persistent });
            }
        }
    }
}

/// On a fraction of the seeds the scenario's problem is solved on a warm solver (1..2 earlier solves), on a smaller
/// fraction it is moved more than 32 decision levels below the root, with lazily discovered reasons (Unknown
/// dependencies) that invalidate a deep partial solution.
fn maybe_warm_or_deep(seed: u64, sc: &mut Scenario, params: &GenParams) {
    let mut r = Rng::stream(seed, "warm-or-deep");
    if r.chance(1, 6) && sc.world.n_solvables() <= 60 {
        // on a warm solver (what an earlier solve learnt or cached must not be installed by a later one)
        prepend_history(seed, sc, params, false);
    } else if r.chance(1, 20) && sc.world.n_solvables() <= 60 {
        // deep below the root: more than 32 decision levels before the conflicts start, and lazily discovered
        // reasons (Unknown dependencies) that invalidate a deep partial solution
        let len = r.range(33, 70);
        if r.chance(2, 3) {
            let all: Vec<u32> = sc.world.solvables.keys().copied().collect();
            for _ in 0..r.range(1, 2) {
                if !all.is_empty() {
                    let x = *r.pick(&all);
                    sc.world.solvables.get_mut(&x).unwrap().deps = crate::world::Deps::Unknown(0);
                }
            }
        }
        let mut p = sc.solves[0].problem.clone();
        crate::gen::add_deep_prefix(&mut r, &mut sc.world, &mut p, len);
        sc.solves[0].problem = p;
    }
}

/// On a fraction of the seeds: the world is a cyclic conflict (see `gen::cyclic_conflict`).
fn maybe_cyclic_conflict(seed: u64, sc: &mut Scenario, one_in: usize) -> bool {
    let mut r = Rng::stream(seed, "cyclic-conflict");
    if !r.chance(1, one_in) {
        return false;
    }
    let (w, p) = crate::gen::cyclic_conflict(&mut r);
    sc.world = w;
    sc.solves.truncate(1);
    sc.solves[0].problem = p;
    sc.solves[0].cancel = None;
    true
}

/// On a fraction of the seeds: the ladder (see `gen::ladder`), 12..48 rungs.
fn maybe_ladder(seed: u64, sc: &mut Scenario, one_in: usize) -> bool {
    let mut r = Rng::stream(seed, "ladder");
    if !r.chance(1, one_in) {
        return false;
    }
    let rungs = if r.chance(1, 3) { r.range(40, 48) } else { r.range(12, 36) };
    let (w, p) = crate::gen::ladder(&mut r, rungs);
    sc.world = w;
    sc.solves.truncate(1);
    sc.solves[0].problem = p;
    sc.solves[0].cancel = None;
    sc.poll_budget = 200_000;
    true
}

/// On a fraction of the seeds: a wide fan-out world (31..60 requirements on distinct packages, packages with more
/// than 30 hinted candidates, unions with more than 30 members).
fn maybe_wide(seed: u64, sc: &mut Scenario, one_in: usize) -> bool {
    let mut r = Rng::stream(seed, "wide");
    if !r.chance(1, one_in) {
        return false;
    }
    let width = r.range(31, 60);
    let (mut w, mut p) = crate::gen::gen_wide(&mut r, width);
    if r.chance(1, 3) {
        let k = r.range(32, 45);
        crate::gen::add_many_soft(&mut r, &mut w, &mut p, k);
    }
    sc.world = w;
    sc.solves.truncate(1);
    sc.solves[0].problem = p;
    true
}

/// On a fraction of the seeds: a dependency chain of several hundred to a few thousand packages.
fn maybe_chain(seed: u64, sc: &mut Scenario, one_in: usize) -> bool {
    maybe_chain_kind(seed, sc, one_in, false)
}

fn maybe_chain_kind(seed: u64, sc: &mut Scenario, one_in: usize, cheap: bool) -> bool {
    let mut r = Rng::stream(seed, "chain");
    if !r.chance(1, one_in) {
        return false;
    }
    // counters and per-batch limits in code are usually powers of two: half of the chains have a length within three of one
    let len = if r.chance(1, 2) {
        let base = 1usize << r.range(8, 11);
        base + r.below(7) - 3
    } else {
        r.range(300, 3000)
    };
    let len = if cheap { len.min(1400) } else { len };
    let (w, p) = crate::gen::gen_chain_kind(&mut r, len, cheap);
    sc.world = w;
    for s in sc.solves.iter_mut() {
        s.problem = p.clone();
        s.cancel = None;
    }
    // hang detection only: orders of magnitude above what a chain of this length legitimately needs
    sc.poll_budget = 2_000_000 + 2_000 * len as u64;
    sc.step_budget = 4_000_000 + 2_000 * len as u64;
    true
}

/// On a fraction of the seeds the scenario's world is replaced by a forest of independent small worlds.
fn maybe_forest(seed: u64, sc: &mut Scenario, params: &GenParams, one_in: usize, tier: Tier) {
    let mut r = Rng::stream(seed, "forest");
    // forests are expensive: the quick tier uses a third of the thorough tier's share
    let one_in = if tier == Tier::Quick { one_in * 3 } else { one_in };
    if !r.chance(1, one_in) {
        return;
    }
    let kmax = if tier == Tier::Quick { 90 } else { 220 };
    let gadgets = r.chance(1, 2);
    // gadget components are tiny, so gadget forests can be much wider (long series of conflicts in one solve)
    let k = if gadgets { r.range(20, 3 * kmax) } else { r.range(8, kmax) };
    let sat_bias = r.chance(3, 4);
    let (w, p) = crate::gen::gen_forest(&mut r, params, k, sat_bias, gadgets);
    sc.world = w;
    sc.solves[0].problem = p;
    // the budgets scale with the size
    sc.poll_budget = 30_000 + 3_000 * k as u64;
}

fn swarm(seed: u64, base: GenParams, tier: Tier) -> GenParams {
    // swarm: perturb the shape parameters per run
    let mut r = Rng::stream(seed, "swarm");
    let mut p = base;
    if tier == Tier::Thorough && r.chance(1, 3) {
        // deeper bound: larger universes (the reference stays complete; it may give up => inconclusive)
        p.max_packages = p.max_packages * 2;
        p.max_candidates += 3;
        p.max_solvables = 96;
        p.max_root_reqs += 2;
    }
    p.max_packages = r.range(p.min_packages.max(1), p.max_packages);
    p.max_candidates = r.range(1, p.max_candidates);
    p.max_reqs = r.range(1, p.max_reqs);
    if r.chance(1, 4) {
        p.p_union = 0;
    }
    if r.chance(1, 3) {
        p.p_unknown = 0;
    }
    if r.chance(1, 3) {
        p.p_excluded = 0;
    }
    if r.chance(1, 3) {
        p.p_locked = 0;
    }
    if r.chance(1, 4) {
        p.acyclic = true;
    }
    p
}

// =============================================================================================
// C01 — every returned solution is valid

pub struct C01;

impl Property for C01 {
    fn id(&self) -> &'static str {
        "C01"
    }
    fn runs(&self, tier: Tier) -> u64 {
        match tier {
            Tier::Quick => 400_000,
            Tier::Thorough => 8_000_000,
        }
    }
    fn rule(&self) -> &'static str {
        "seeded world (<=48 solvables; unions, root constraints, locks, favored, exclusions, Unknown, missing, cycles, soft requirements, all hint patterns) x sync/async schedule x activity params x hash salt; oracle: every Ok(S) satisfies Valid(S) evaluated on the provider tables; non-trivial = solve returned Ok with >= 2 solvables; distinct = (world, completion trace, fault plan) hash; families: soft requirements nobody else requests, the documented-exemption corner, runs of soft requirements that are rejected one right after the other; interchangeable candidates (twins) on one seed in five"
    }
    fn gen(&self, seed: u64, tier: Tier) -> Vec<Scenario> {
        let mut base = if seed % 3 == 0 {
            GenParams::conflict_rich()
        } else {
            GenParams::wide()
        };
        if seed % 2 == 0 {
            base.max_soft = 3;
        }
        let mut sc = std_scenario(seed, &swarm(seed, base, tier), None);
        maybe_unrequested_soft(seed, &mut sc, 6);
        maybe_exempt_soft_family(seed, &mut sc, 10);
        maybe_rejected_soft_run(seed, &mut sc, 12);
        sc.capture_state = true;
        // cancellation fault on some seeds: whatever comes back as Ok must still be valid
        let mut fr = Rng::stream(seed, "faults");
        if fr.chance(1, 8) {
            sc.spurious_p = 0;
            let polls = execute(&sc).stats.cancel_polls.max(1);
            sc.solves[0].cancel = Some(CancelPlan {
                at_poll: fr.below(polls as usize) as u64,
                mode: if fr.chance(1, 2) { CancelMode::Transient } else { CancelMode::Persistent },
            });
        }
        vec![sc]
    }
    fn judge(&self, sc: &Scenario) -> Verdict {
        let rec = execute(sc);
        let mut v = base_verdict(sc, &rec);
        for (i, o) in rec.outcomes.iter().enumerate() {
            match o {
                Outcome::Ok(s) => {
                    v.evaluated = true;
                    if s.len() >= 2 {
                        v.nontrivial = true;
                    }
                    let errs = validity_errors(&sc.world, &sc.solves[i].problem, s);
                    if let Some((cat, text)) = errs.first() {
                        v.violate(format!("invalid:{cat}"), format!("solve #{i} returned {s:?}: {text}"));
                    }
                    // invariants over the recorded clause database that imply validity for every input
                    if let Some(Some(d)) = rec.dumps.get(i) {
                        *v.probes.entry("internal_state_checked").or_insert(0) += 1;
                        if let Some(e) = crate::internal::clause_truth(&sc.world, &sc.solves[i].problem, d) {
                            v.violate("internal:clause-false", format!("solve #{i}: {e}"));
                        }
                        if let Some(e) = crate::internal::solution_encoded(&sc.world, &sc.solves[i].problem, s, &cand_received(&rec), d) {
                            v.violate("internal:not-encoded", format!("solve #{i} returned {s:?}: {e}"));
                        }
                    }
                }
                o if o.is_crash() => v.aborted_other = true,
                _ => {
                    v.evaluated = true;
                }
            }
        }
        v
    }
}

// =============================================================================================
// C02 — Unsolvable iff no solution exists

pub struct C02;

impl Property for C02 {
    fn id(&self) -> &'static str {
        "C02"
    }
    fn runs(&self, tier: Tier) -> u64 {
        match tier {
            Tier::Quick => 400_000,
            Tier::Thorough => 8_000_000,
        }
    }
    fn rule(&self) -> &'static str {
        "conflict-rich seeded world (narrow version sets, constrains, locks, diamonds) x hints x rank/id permutation x schedule x activity params; oracle: verdict of solve (no soft requirements) = verdict of an independent complete DPLL over the documented rules; non-trivial = Unsolvable verdict, or Ok on an instance whose first-choice closure is inconsistent (search had to deviate); distinct = (world, trace, plan) hash; one seed in four uses the dense parameter set (few small packages, every feature at a high rate); one in six solves the problem on a warm solver (1-2 earlier solves), one in twenty moves it more than 32 decision levels below the root (deep prefix) with lazily discovered Unknown dependencies"
    }
    fn gen(&self, seed: u64, tier: Tier) -> Vec<Scenario> {
        let base = if seed % 4 == 0 {
            GenParams::wide()
        } else if seed % 4 == 1 {
            GenParams::dense()
        } else {
            GenParams::conflict_rich()
        };
        let params = if seed % 4 == 1 { base } else { swarm(seed, base, tier) };
        let mut sc = std_scenario(seed, &params, None);
        maybe_forest(seed, &mut sc, &params, 40, tier);
        maybe_warm_or_deep(seed, &mut sc, &params);
        sc.capture_state = true;
        {
            // long series of conflicts in one solve (counters, stamps and periodic actions keyed on the number of
            // conflicts): forests of 900..1020 conflict gadgets, several hundred learnt clauses per solve (a solve takes seconds: every lazily discovered conflict restarts the search), on one seed in 80000
            let mut gr = Rng::stream(seed, "many-conflicts");
            if gr.chance(1, 80_000) || std::env::var("VERIF_FORCE_MANY_CONFLICTS").is_ok() {
                let k = gr.range(900, 1020);
                let (w, p) = crate::gen::gen_forest(&mut gr, &params, k, true, true);
                sc.world = w;
                sc.solves.truncate(1);
                sc.solves[0].problem = p;
                sc.poll_budget = 30_000 + 3_000 * k as u64;
            }
        }
        vec![sc]
    }
    fn judge(&self, sc: &Scenario) -> Verdict {
        let rec = execute(sc);
        let mut v = base_verdict(sc, &rec);
        *v.probes.entry("online_states_checked").or_insert(0) += rec.online_states;
        if let Some(e) = rec.online_violations.first() {
            v.evaluated = true;
            v.violate("internal:unjustified-assignment", format!("while solving: {e}"));
        }
        for (i, o) in rec.outcomes.iter().enumerate() {
            let p = hard_only(&sc.solves[i].problem);
            if !sc.solves[i].problem.soft.is_empty() {
                v.skipped_pre = true;
                continue;
            }
            // certificate-style checks on the recorded clause database: every clause is a true fact and every
            // learnt clause follows from the problem clauses (so neither verdict can rest on an unsound step)
            if let Some(Some(d)) = rec.dumps.get(i) {
                *v.probes.entry("internal_state_checked").or_insert(0) += 1;
                let n_learnt = d.clauses.iter().filter(|c| matches!(c.kind, resolvo::verif_hooks::DumpKind::Learnt(_))).count();
                *v.probes.entry("learnt_clauses_certified").or_insert(0) += n_learnt as u64;
                if n_learnt >= 64 {
                    *v.probes.entry("solves_with_64_or_more_learnt_clauses").or_insert(0) += 1;
                }
                if n_learnt >= 256 {
                    *v.probes.entry("solves_with_256_or_more_learnt_clauses").or_insert(0) += 1;
                }
                if let Some(e) = crate::internal::clause_truth(&sc.world, &p, d) {
                    v.evaluated = true;
                    v.violate("internal:clause-false", format!("solve #{i}: {e}"));
                }
                if let Some(e) = crate::internal::learnt_sound(d) {
                    v.evaluated = true;
                    v.violate("internal:learnt-unsound", format!("solve #{i}: {e}"));
                }
                if let Some(e) = crate::internal::trail_justified(d) {
                    v.evaluated = true;
                    v.violate("internal:unjustified-assignment", format!("solve #{i}: {e}"));
                }
            }
            match o.verdict() {
                None => v.aborted_other = true,
                Some(got) => match ref_verdict(&sc.world, &p) {
                    None => v.inconclusive = true,
                    Some(want) => {
                        v.evaluated = true;
                        if !got || !first_choice(&sc.world, &p, &[]).consistent_exclusive {
                            v.nontrivial = true;
                        }
                        if got != want {
                            v.violate(
                                if want { "unsat-but-solvable" } else { "sat-but-unsolvable" },
                                format!(
                                    "solve #{i}: resolvo says {}, reference says {}",
                                    if got { "Ok" } else { "Unsolvable" },
                                    if want { "satisfiable" } else { "unsatisfiable" }
                                ),
                            );
                        }
                    }
                },
            }
        }
        v
    }
}

// =============================================================================================
// C03 — conflict report truthful and self-contained

pub struct C03;

pub fn check_conflict_graph(w: &World, p: &ProblemSpec, g: &crate::run::GraphDump) -> Option<(String, String)> {
    // (b) reachability
    let n = g.nodes.len();
    let mut seen = vec![false; n];
    let mut stack = vec![g.root];
    seen[g.root] = true;
    while let Some(x) = stack.pop() {
        for (a, b, _) in &g.edges {
            if *a == x && !seen[*b] {
                seen[*b] = true;
                stack.push(*b);
            }
        }
    }
    if let Some(i) = seen.iter().position(|s| !s) {
        return Some(("graph:unreachable".into(), format!("node {:?} not reachable from root", g.nodes[i])));
    }
    if g.nodes[g.root] != GNode::Root {
        return Some(("graph:root".into(), "root_node is not the root".into()));
    }
    let reqs_of = |node: &GNode| -> Option<(Vec<Req>, Vec<u32>)> {
        match node {
            GNode::Root => Some((p.requirements.clone(), p.constraints.clone())),
            GNode::Solvable(s) => w.known_deps(*s).map(|(r, c)| (r.clone(), c.clone())),
            _ => None,
        }
    };
    // (a) every edge is a true statement
    let mut groups: BTreeMap<(usize, Req), BTreeSet<usize>> = BTreeMap::new();
    for (a, b, k) in &g.edges {
        match k {
            GEdge::Requires(r) => {
                let Some((reqs, _)) = reqs_of(&g.nodes[*a]) else {
                    return Some(("graph:requires-source".into(), format!("requires edge from {:?} which has no known requirements", g.nodes[*a])));
                };
                if !reqs.contains(r) {
                    return Some(("graph:requires-foreign".into(), format!("{:?} does not have requirement {r:?}", g.nodes[*a])));
                }
                groups.entry((*a, r.clone())).or_default().insert(*b);
            }
            GEdge::Constrains(vs) => {
                let Some((_, cons)) = reqs_of(&g.nodes[*a]) else {
                    return Some(("graph:constrains-source".into(), format!("constrains edge from {:?}", g.nodes[*a])));
                };
                if !cons.contains(vs) {
                    return Some(("graph:constrains-foreign".into(), format!("{:?} does not constrain vs{vs}", g.nodes[*a])));
                }
                match &g.nodes[*b] {
                    GNode::Solvable(t) if w.non_matching(*vs).contains(t) => {}
                    other => {
                        return Some(("graph:constrains-target".into(), format!("constrains vs{vs} edge points at {other:?} which is not a non-matching candidate")));
                    }
                }
            }
            GEdge::Locked(l) => {
                if g.nodes[*a] != GNode::Root {
                    return Some(("graph:lock-source".into(), "lock edge not from root".into()));
                }
                match &g.nodes[*b] {
                    GNode::Solvable(t) => {
                        let name = w.solvable_name(*t);
                        let pk = &w.packages[&name];
                        if pk.missing || pk.locked != Some(*l) || *l == *t || !pk.candidates.contains(t) {
                            return Some(("graph:lock-false".into(), format!("solvable {t} is not locked out by {l}")));
                        }
                    }
                    other => return Some(("graph:lock-target".into(), format!("lock edge to {other:?}"))),
                }
            }
            GEdge::Excluded => {
                let (GNode::Solvable(s), GNode::Excluded(reason)) = (&g.nodes[*a], &g.nodes[*b]) else {
                    return Some(("graph:excluded-shape".into(), format!("excluded edge {:?} -> {:?}", g.nodes[*a], g.nodes[*b])));
                };
                let name = w.solvable_name(*s);
                let by_pkg = !w.packages[&name].missing
                    && w.packages[&name].excluded.iter().any(|(x, r)| x == s && r == reason);
                let by_unknown = matches!(w.solvables[s].deps, crate::world::Deps::Unknown(r) if r == *reason);
                if !by_pkg && !by_unknown {
                    return Some(("graph:excluded-false".into(), format!("solvable {s} is not excluded for reason {reason}")));
                }
            }
            GEdge::Forbid => {
                let (GNode::Solvable(x), GNode::Solvable(y)) = (&g.nodes[*a], &g.nodes[*b]) else {
                    return Some(("graph:forbid-shape".into(), "forbid edge between non-solvables".into()));
                };
                if w.solvable_name(*x) != w.solvable_name(*y) {
                    return Some(("graph:forbid-names".into(), format!("forbid edge joins {x} and {y} of different packages")));
                }
            }
        }
    }
    for ((a, r), targets) in &groups {
        let cands = w.req_cand_set(r);
        if cands.is_empty() {
            let ok = targets.len() == 1 && g.nodes[*targets.iter().next().unwrap()] == GNode::Unresolved;
            if !ok {
                return Some(("graph:requires-unresolved".into(), format!("{:?} requires {r:?} which has no candidates, but targets are not exactly the unresolved node", g.nodes[*a])));
            }
        } else {
            let mut tset = BTreeSet::new();
            for t in targets {
                match &g.nodes[*t] {
                    GNode::Solvable(s) => {
                        tset.insert(*s);
                    }
                    other => {
                        return Some(("graph:requires-target".into(), format!("requires edge to {other:?} although {r:?} has candidates")));
                    }
                }
            }
            if tset != cands {
                return Some(("graph:requires-candidates".into(), format!("{:?} requires {r:?}: targets {tset:?} != candidates {cands:?}", g.nodes[*a])));
            }
        }
    }
    // (c) the drawn facts alone are unsatisfiable
    let mut var: BTreeMap<usize, i32> = BTreeMap::new();
    for (i, nd) in g.nodes.iter().enumerate() {
        if let GNode::Solvable(_) = nd {
            let k = var.len() as i32 + 1;
            var.insert(i, k);
        }
    }
    let mut cnf = reference::Cnf {
        clauses: vec![],
        nvars: var.len(),
    };
    let neg = |i: usize| -> Option<i32> {
        if i == g.root {
            None
        } else {
            Some(-var[&i])
        }
    };
    let mut empty_clause = false;
    for ((a, _), targets) in &groups {
        let mut c: Vec<i32> = neg(*a).into_iter().collect();
        for t in targets {
            if let GNode::Solvable(_) = g.nodes[*t] {
                c.push(var[t]);
            }
        }
        if c.is_empty() {
            empty_clause = true;
        }
        cnf.clauses.push(c);
    }
    // forbid components
    let mut comp: BTreeMap<usize, usize> = var.keys().map(|&i| (i, i)).collect();
    fn find(c: &mut BTreeMap<usize, usize>, x: usize) -> usize {
        let p = c[&x];
        if p == x {
            x
        } else {
            let r = find(c, p);
            c.insert(x, r);
            r
        }
    }
    for (a, b, k) in &g.edges {
        match k {
            GEdge::Constrains(_) => {
                let mut c: Vec<i32> = neg(*a).into_iter().collect();
                c.push(-var[b]);
                c.dedup();
                cnf.clauses.push(c);
            }
            GEdge::Locked(_) => cnf.clauses.push(vec![-var[b]]),
            GEdge::Excluded => cnf.clauses.push(vec![-var[a]]),
            GEdge::Forbid => {
                let ra = find(&mut comp, *a);
                let rb = find(&mut comp, *b);
                if ra != rb {
                    comp.insert(ra, rb);
                }
            }
            GEdge::Requires(_) => {}
        }
    }
    let keys: Vec<usize> = var.keys().copied().collect();
    let mut members: BTreeMap<usize, Vec<usize>> = BTreeMap::new();
    let mut in_forbid: BTreeSet<usize> = BTreeSet::new();
    for (a, b, k) in &g.edges {
        if *k == GEdge::Forbid {
            in_forbid.insert(*a);
            in_forbid.insert(*b);
        }
    }
    for i in keys {
        if in_forbid.contains(&i) {
            let r = find(&mut comp, i);
            members.entry(r).or_default().push(i);
        }
    }
    for (_, m) in members {
        for i in 0..m.len() {
            for j in (i + 1)..m.len() {
                cnf.clauses.push(vec![-var[&m[i]], -var[&m[j]]]);
            }
        }
    }
    if !empty_clause {
        match reference::dpll(&cnf, reference::REF_BUDGET) {
            Sat::Sat(model) => {
                let chosen: Vec<&GNode> = var
                    .iter()
                    .filter(|(_, k)| model[(**k - 1) as usize])
                    .map(|(i, _)| &g.nodes[*i])
                    .collect();
                return Some(("graph:not-self-contained".into(), format!("the facts in the conflict graph admit installing root with {chosen:?}")));
            }
            Sat::Unsat => {}
            Sat::Unknown => return None,
        }
    }
    None
}

impl Property for C03 {
    fn id(&self) -> &'static str {
        "C03"
    }
    fn runs(&self, tier: Tier) -> u64 {
        match tier {
            Tier::Quick => 400_000,
            Tier::Thorough => 8_000_000,
        }
    }
    fn rule(&self) -> &'static str {
        "conflict-rich seeded worlds; only Unsolvable results are evaluated: every edge of Conflict::graph is checked against the provider tables, every node must be reachable from root, and the CNF made of the drawn facts alone (+ at-most-one inside forbid-connected components) must be UNSAT by the reference DPLL; non-trivial = graph with >= 4 edges; distinct = (world, trace, plan) hash; families: cyclic conflicts whose members are interchangeable candidates, forests, universes of up to 14 packages / 72 solvables on one seed in five"
    }
    fn gen(&self, seed: u64, tier: Tier) -> Vec<Scenario> {
        let mut base = GenParams::conflict_rich();
        if seed % 3 == 0 {
            base = GenParams::wide();
        }
        // bias towards unsatisfiable instances
        base.max_root_reqs = 5;
        base.max_root_constraints = 3;
        if seed % 5 == 0 {
            // larger universes: conflicts whose proof chains several learnt clauses
            base.max_packages = 14;
            base.max_solvables = 72;
            base.max_candidates = 6;
        }
        let params = swarm(seed, base, tier);
        let mut sc = std_scenario(seed, &params, None);
        maybe_forest(seed, &mut sc, &params, 40, tier);
        maybe_cyclic_conflict(seed, &mut sc, 40);
        maybe_ladder(seed, &mut sc, 1500);
        sc.render = true;
        sc.capture_state = true;
        // a deadline-style provider keeps reporting cancellation while the report is built; the caller swaps the
        // runtime between solving and reporting
        let mut fr = Rng::stream(seed, "c03-flags");
        sc.cancel_during_render = fr.chance(1, 4);
        sc.rewrap_before_render = fr.chance(1, 6);
        vec![sc]
    }
    fn judge(&self, sc: &Scenario) -> Verdict {
        let rec = execute(sc);
        let mut v = base_verdict(sc, &rec);
        for (i, o) in rec.outcomes.iter().enumerate() {
            match o {
                Outcome::Unsolvable(Some(r)) if r.render_panic.is_none() => {
                    v.evaluated = true;
                    // the report replaces learnt clauses by their recorded antecedents: those must suffice
                    if let Some(Some(d)) = rec.dumps.get(i) {
                        if let Some(e) = crate::internal::learnt_why_complete(d) {
                            v.violate("internal:learnt-why", format!("solve #{i}: {e}"));
                        }
                    }
                    if r.graph.edges.len() >= 4 {
                        v.nontrivial = true;
                    }
                    if let Some((c, d)) = check_conflict_graph(&sc.world, &hard_only(&sc.solves[i].problem), &r.graph) {
                        v.violate(c, format!("solve #{i}: {d}"));
                    }
                }
                Outcome::Unsolvable(Some(r)) => {
                    // building the graph panicked: inside conflict.rs this is the report failing its own
                    // sanity checks (e.g. nodes not reachable from the root), which is this property's business
                    match &r.render_panic {
                        Some(p) if p.file.ends_with("conflict.rs") => {
                            v.evaluated = true;
                            v.violate(
                                format!("graph:panic:{}", p.site()),
                                format!("solve #{i}: building / rendering the conflict report panicked at {}:{}: {}", p.file, p.line, p.msg),
                            );
                        }
                        _ => v.aborted_other = true,
                    }
                }
                Outcome::Ok(_) | Outcome::Cancelled(Some(Token::Cancel { .. })) => v.skipped_pre = true,
                _ => v.aborted_other = true,
            }
        }
        v
    }
}

// =============================================================================================
// C04 — terminates without panicking, rendering bounded

pub struct C04;

impl Property for C04 {
    fn id(&self) -> &'static str {
        "C04"
    }
    fn runs(&self, tier: Tier) -> u64 {
        match tier {
            Tier::Quick => 500_000,
            Tier::Thorough => 10_000_000,
        }
    }
    fn rule(&self) -> &'static str {
        "widest swarm (hints x constraints/exclusions/locks, soft requirements x exclusions/unrequested packages, self-constraints, cycles, empty and missing packages, duplicate requirements; sync and async; both build profiles); oracle: no panic, no deadlock, no step/poll budget, conflict graph + graphviz(x2) + user-friendly message finish within max(64KiB, 2KiB*(nodes+edges)^2); non-trivial = world with >= 4 solvables and at least one fault kind fired; distinct = (world, trace, plan) hash; families: rejected-soft runs, cyclic conflicts with interchangeable candidates, histories on a warm solver (with cancelled earlier solves), deep prefix (33-70 decision levels), an all-levels tracing subscriber on one seed in eight, five representations of the cancellation value"
    }
    fn gen(&self, seed: u64, tier: Tier) -> Vec<Scenario> {
        let mut r = Rng::stream(seed, "c04");
        if r.chance(1, 60) {
            // size family: one package with 100-300 candidates (storage growth, helper-variable numbering)
            let n = r.range(100, 300);
            let i = r.below(n);
            let (w, mut reqs, exact) = crate::checks2::c15_world(&mut r, n, i);
            reqs.push(Req::Single(exact[i]));
            if r.chance(1, 2) {
                reqs.push(Req::Single(exact[(i + 1 + r.below(n - 1)) % n]));
            }
            let mut sc = Scenario::basic(w, ProblemSpec { requirements: reqs, constraints: vec![], soft: vec![] });
            let mut cr = Rng::stream(seed, "config");
            gen_config(&mut cr, &mut sc, None);
            sc.hash_salt = cr.next_u64();
            sc.render = true;
            return vec![sc];
        }
        let mut base = match r.below(4) {
            0 | 1 => GenParams::conflict_rich(),
            2 => GenParams::wide(),
            _ => GenParams::conflict_free(),
        };
        if r.chance(1, 2) {
            // the interactions the property names
            base.p_self_constrain = 2;
            base.p_excluded = 2;
            base.p_locked = 2;
            base.hint_weights = [3, 3, 3, 4];
        }
        if r.chance(1, 2) {
            base.max_soft = r.range(1, 4);
        }
        if r.chance(1, 4) {
            base.max_packages = 12;
            base.max_solvables = 60;
        }
        let mut sc = std_scenario(seed, &swarm(seed, base, tier), None);
        maybe_unrequested_soft(seed, &mut sc, 4);
        maybe_exempt_soft_family(seed, &mut sc, 10);
        maybe_rejected_soft_run(seed, &mut sc, 12);
        maybe_wide(seed, &mut sc, 300);
        maybe_chain(seed, &mut sc, 4000);
        maybe_cyclic_conflict(seed, &mut sc, 40);
        maybe_ladder(seed, &mut sc, 1500);
        sc.render = true;
        sc.cancel_during_render = r.chance(1, 4);
        sc.rewrap_before_render = r.chance(1, 10);
        // a solve is a solve: on a warm solver, after a cancelled one, deep below the root, with a subscriber listening
        let params = GenParams::conflict_rich();
        if r.chance(1, 6) && sc.world.n_solvables() <= 60 {
            let cancel = r.chance(1, 2);
            prepend_history(seed, &mut sc, &params, cancel);
        } else if r.chance(1, 30) && sc.world.n_solvables() <= 60 {
            let len = r.range(33, 70);
            let mut p = sc.solves[0].problem.clone();
            crate::gen::add_deep_prefix(&mut r, &mut sc.world, &mut p, len);
            sc.solves[0].problem = p;
        }
        sc.trace_subscriber = r.chance(1, 8);
        sc.token_repr = r.below(5) as u8;
        vec![sc]
    }
    fn judge(&self, sc: &Scenario) -> Verdict {
        let rec = execute(sc);
        let mut v = base_verdict(sc, &rec);
        v.evaluated = true;
        v.nontrivial = sc.world.n_solvables() >= 4 && v.faults.len() > 1;
        if sc.cancel_during_render && rec.outcomes.iter().any(|o| matches!(o, Outcome::Unsolvable(_))) {
            *v.faults.entry("cancel_during_render").or_insert(0) += 1;
        }
        for (i, o) in rec.outcomes.iter().enumerate() {
            if let Some((c, d)) = crash_class(o) {
                v.violate(c, format!("solve #{i}: {d}"));
            }
        }
        v
    }
}

// =============================================================================================
// C05 — no extraneous solvables

pub struct C05;

impl Property for C05 {
    fn id(&self) -> &'static str {
        "C05"
    }
    fn runs(&self, tier: Tier) -> u64 {
        match tier {
            Tier::Quick => 400_000,
            Tier::Thorough => 8_000_000,
        }
    }
    fn rule(&self) -> &'static str {
        "satisfiable conflict-rich worlds (decoy candidates whose dependency trees end in a conflict) with and without soft requirements; oracle: S is contained in the least fixpoint Reach(root requirements + accepted soft solvables) along requirement edges satisfied inside S; non-trivial = Ok on an instance whose first-choice closure is inconsistent (backtracking happened) with >= 3 solvables; distinct = (world, trace, plan) hash; one seed in six solves the problem on a warm solver (an earlier problem is often the same problem plus further requirements), one in twenty moves it more than 32 decision levels below the root with lazily discovered Unknown dependencies"
    }
    fn gen(&self, seed: u64, tier: Tier) -> Vec<Scenario> {
        let mut base = GenParams::conflict_rich();
        base.max_constrains = 3;
        if seed % 2 == 0 {
            base.max_soft = 2;
        }
        let params = swarm(seed, base, tier);
        let mut sc = std_scenario(seed, &params, None);
        maybe_forest(seed, &mut sc, &params, 40, tier);
        maybe_warm_or_deep(seed, &mut sc, &params);
        sc.capture_state = true;
        vec![sc]
    }
    fn judge(&self, sc: &Scenario) -> Verdict {
        let rec = execute(sc);
        let mut v = base_verdict(sc, &rec);
        *v.probes.entry("online_states_checked").or_insert(0) += rec.online_states;
        if let Some(e) = rec.online_violations.first() {
            if !rec.outcomes.iter().any(|o| o.is_crash()) {
                v.evaluated = true;
                v.violate("internal:unjustified-assignment", format!("while solving: {e}"));
            }
        }
        for (i, o) in rec.outcomes.iter().enumerate() {
            match o {
                Outcome::Ok(s) => {
                    v.evaluated = true;
                    let p = &sc.solves[i].problem;
                    let set: BTreeSet<u32> = s.iter().copied().collect();
                    if s.len() >= 3 && !first_choice(&sc.world, &hard_only(p), &[]).consistent_exclusive {
                        v.nontrivial = true;
                    }
                    let reach = reach_in_solution(&sc.world, p, &set);
                    let extra: Vec<u32> = set.difference(&reach).copied().collect();
                    if !extra.is_empty() {
                        v.violate("extraneous", format!("solve #{i} returned {s:?}; not needed: {extra:?}"));
                    }
                    // every propagated assignment on the final trail has a reason that really forces it (a positive
                    // literal left behind by backtracking is exactly how an unneeded solvable gets installed)
                    if let Some(Some(d)) = rec.dumps.get(i) {
                        *v.probes.entry("internal_state_checked").or_insert(0) += 1;
                        if d.trail.iter().map(|t| t.level).max().unwrap_or(0) > 32 {
                            *v.probes.entry("solution_with_over_32_decision_levels").or_insert(0) += 1;
                        }
                        if let Some(e) = crate::internal::trail_justified(d) {
                            v.violate("internal:unjustified-assignment", format!("solve #{i}: {e}"));
                        }
                    }
                }
                o if o.is_crash() => v.aborted_other = true,
                _ => v.skipped_pre = true,
            }
        }
        v
    }
}

// =============================================================================================
// C06 — same problem, same answer (hash salt independence)

pub struct C06;

fn observable(o: &Outcome) -> String {
    match o {
        Outcome::Ok(v) => format!("Ok{v:?}"),
        Outcome::Unsolvable(Some(r)) => format!(
            "Unsolvable\n{}\n{}\n{}",
            r.message.clone().unwrap_or_default(),
            r.graphviz.clone().unwrap_or_default(),
            r.graphviz_simplified.clone().unwrap_or_default()
        ),
        other => other.short(),
    }
}

impl Property for C06 {
    fn id(&self) -> &'static str {
        "C06"
    }
    fn runs(&self, tier: Tier) -> u64 {
        match tier {
            Tier::Quick => 150_000,
            Tier::Thorough => 3_000_000,
        }
    }
    fn rule(&self) -> &'static str {
        "any seeded world/problem with a non-yielding provider; the same scenario is executed under k different ahash salts (k=4 quick, 8 thorough; every ahash::RandomState::new() in the subject draws from the salt stream) and once more under the simulator's executor; oracle: identical solution vector, or identical user-friendly message and graphviz text; non-trivial = result has >= 3 solvables or is Unsolvable; distinct = (world, plan) hash; families: cyclic conflicts, conflicts of several hundred clauses (2-3 packages with 31-50 candidates each pinning a shared package), and repeated runs on one long-lived solver (the same problem 300-3000 times, preferring problems that learn clauses): once a repetition needs nothing from the provider, every further repetition must give the same output"
    }
    fn gen(&self, seed: u64, tier: Tier) -> Vec<Scenario> {
        let mut base = match seed % 3 {
            0 => GenParams::wide(),
            _ => GenParams::conflict_rich(),
        };
        if seed % 2 == 0 {
            base.max_soft = 2;
        }
        base.max_root_reqs = 5;
        let mut sc = std_scenario(seed, &swarm(seed, base, tier), Some(false));
        maybe_cyclic_conflict(seed, &mut sc, 40);
        let mut fr = Rng::stream(seed, "c06-families");
        if fr.chance(1, 150) {
            // a conflict of several hundred clauses
            let (w, p) = crate::gen::large_conflict(&mut fr);
            sc.world = w;
            sc.solves.truncate(1);
            sc.solves[0].problem = p;
        }
        sc.runtime = RuntimeKind::NowOrNever;
        sc.render = true;
        let mut r = Rng::stream(seed, "salts");
        let k = if tier == Tier::Quick { 3 } else { 7 };
        sc.extra_salts = (0..k).map(|_| r.next_u64()).collect();
        if fr.chance(1, 40) && sc.world.n_solvables() <= 48 {
            // "repeated runs" on one long-lived solver: the same problem again and again. Problems whose search learns
            // clauses are preferred (state that depends on the number of conflicts a solver has seen in its life), long
            // enough for a few thousand conflicts in total.
            let mut probe = sc.clone();
            probe.capture_state = true;
            probe.render = false;
            probe.extra_salts.clear();
            let learnt = execute(&probe)
                .dumps
                .first()
                .and_then(|d| d.as_ref())
                .map(|d| d.clauses.iter().filter(|c| matches!(c.kind, resolvo::verif_hooks::DumpKind::Learnt(_))).count())
                .unwrap_or(0);
            if learnt >= 2 || fr.chance(1, 10) {
                sc.repeat = if learnt >= 2 { (2600 / learnt + fr.range(50, 400)).min(3000) as u32 } else { fr.range(300, 1500) as u32 };
                sc.render = false;
                sc.extra_salts.truncate(1);
            }
        }
        vec![sc]
    }
    fn judge(&self, sc: &Scenario) -> Verdict {
        let rec = execute(sc);
        let mut v = base_verdict(sc, &rec);
        if rec.outcomes.iter().any(|o| o.is_crash()) {
            v.aborted_other = true;
            return v;
        }
        v.evaluated = true;
        let base: Vec<String> = rec.outcomes.iter().map(observable).collect();
        v.nontrivial = rec.outcomes.iter().any(|o| match o {
            Outcome::Ok(s) => s.len() >= 3,
            Outcome::Unsolvable(_) => true,
            _ => false,
        });
        for salt in &sc.extra_salts {
            let r2 = execute_with_salt(sc, *salt);
            let other: Vec<String> = r2.outcomes.iter().map(observable).collect();
            if other != base {
                v.violate(
                    "output-divergence",
                    format!("different hash seeds give different output: salt {} gives {:?}\nsalt {} gives {:?}", sc.hash_salt, base, salt, other),
                );
                break;
            }
        }
        // "repeated runs" on one solver: once a repetition of the problem needs nothing from the provider any more, the
        // solver's persistent state (its cache) has stopped changing, and every further repetition is a function of
        // the same inputs - it must give the same output
        if sc.repeat > 1 && v.violation.is_none() {
            *v.probes.entry("long_lived_solver_over_100_calls").or_insert(0) += 1;
            let mut quiet: Vec<bool> = Vec::new();
            let mut cur_calls = 0u64;
            for e in &rec.log {
                match e {
                    Ev::SolveBegin(_) => cur_calls = 0,
                    Ev::Start { .. } => cur_calls += 1,
                    Ev::SolveEnd(_) => quiet.push(cur_calls == 0),
                    _ => {}
                }
            }
            let n = sc.solves.len();
            for i in n..rec.outcomes.len().min(quiet.len()) {
                if quiet[i] && quiet[i - n] && base[i] != base[i - n] {
                    v.violate(
                        "repeated-run-divergence",
                        format!("call #{i} on the same solver returns {:?}, call #{} of the identical problem returned {:?}; neither needed the provider", base[i], i - n, base[i - n]),
                    );
                    break;
                }
            }
        }
        // "repeated runs ... independent of allocation addresses": the same salt again, with a different heap
        // layout (ballast allocations of varying size are kept alive across the repetitions)
        if v.violation.is_none() && sc.repeat <= 1 {
            let mut ballast: Vec<Vec<u8>> = Vec::new();
            for rep in 0..6usize {
                ballast.push(vec![0u8; 24 + 40 * rep]);
                let r2 = execute_with_salt(sc, sc.hash_salt);
                let other: Vec<String> = r2.outcomes.iter().map(observable).collect();
                if other != base {
                    v.violate(
                        "output-divergence",
                        format!("two executions with identical hash seeds differ: {:?} vs {:?}", base, other),
                    );
                    break;
                }
            }
            drop(ballast);
        }
        v
    }
}

// =============================================================================================
// C07 — compatible first choices are exactly what is installed

pub struct C07;

impl Property for C07 {
    fn id(&self) -> &'static str {
        "C07"
    }
    fn runs(&self, tier: Tier) -> u64 {
        match tier {
            Tier::Quick => 400_000,
            Tier::Thorough => 8_000_000,
        }
    }
    fn rule(&self) -> &'static str {
        "mostly conflict-free worlds (chains, diamonds, cycles, unions) x favored x rank permutation x hints x schedule; precondition decided by the reference: FirstChoice closure is a valid selection and every reachable requirement is met only by its own first choice (else skipped); oracle: solve = Ok(S) with set(S) = FirstChoice; non-trivial = precondition holds and >= 3 solvables installed; distinct = (world, trace, plan) hash"
    }
    fn gen(&self, seed: u64, tier: Tier) -> Vec<Scenario> {
        let mut base = GenParams::conflict_free();
        base.p_big_package = 1;
        let params = swarm(seed, base, tier);
        if seed % 4 != 0 {
            let mut sc = std_scenario(seed, &params, None);
            // conflict-free by construction and large: chains of several hundred to a few thousand packages
            maybe_chain(seed, &mut sc, 2500);
            return vec![sc];
        }
        // the preference guarantee is not limited to fresh solvers: histories of 2-3 problems on one solver
        // (earlier solves may have hit exclusions, Unknown dependencies or missing packages)
        let mut p2 = params.clone();
        p2.p_excluded = 2;
        p2.p_unknown = 1;
        p2.p_missing = 1;
        let mut wr = Rng::stream(seed, "world");
        let n = 2 + wr.below(2);
        let (w, ps) = gen_world(&mut wr, &p2, n);
        let mut sc = Scenario::basic(w, ps[0].clone());
        sc.solves = ps.into_iter().map(|p| SolveSpec { problem: p, cancel: None }).collect();
        let mut cr = Rng::stream(seed, "config");
        gen_config(&mut cr, &mut sc, None);
        sc.activity = gen_activity(&mut cr);
        sc.hash_salt = Rng::stream(seed, "hash_salt").next_u64();
        vec![sc]
    }
    fn judge(&self, sc: &Scenario) -> Verdict {
        // which solves meet the precondition?
        let fcs: Vec<Option<reference::FirstChoice>> = sc
            .solves
            .iter()
            .map(|s| {
                if !s.problem.soft.is_empty() || s.cancel.is_some() {
                    return None;
                }
                let fc = first_choice(&sc.world, &hard_only(&s.problem), &[]);
                if fc.consistent_exclusive {
                    Some(fc)
                } else {
                    None
                }
            })
            .collect();
        if fcs.iter().all(|f| f.is_none()) {
            let mut v = Verdict::default();
            v.skipped_pre = true;
            return v;
        }
        let rec = execute(sc);
        let mut v = base_verdict(sc, &rec);
        for (i, o) in rec.outcomes.iter().enumerate() {
            let Some(fc) = &fcs[i] else { continue };
            match o {
                Outcome::Ok(s) => {
                    v.evaluated = true;
                    if s.len() >= 3 {
                        v.nontrivial = true;
                    }
                    let set: BTreeSet<u32> = s.iter().copied().collect();
                    if set != fc.set {
                        v.violate("not-first-choice", format!("solve #{i} returned {s:?}, first-choice closure is {:?}", fc.set));
                    }
                }
                Outcome::Unsolvable(_) => {
                    v.evaluated = true;
                    v.violate("first-choice-unsolvable", format!("solve #{i}: Unsolvable although the first-choice closure {:?} is a valid selection", fc.set));
                }
                _ => {
                    v.aborted_other = true;
                    break;
                }
            }
        }
        v
    }
}

// =============================================================================================
// C08 — direct requirements get their best candidate when possible

pub struct C08;

impl Property for C08 {
    fn id(&self) -> &'static str {
        "C08"
    }
    fn runs(&self, tier: Tier) -> u64 {
        match tier {
            Tier::Quick => 400_000,
            Tier::Thorough => 8_000_000,
        }
    }
    fn rule(&self) -> &'static str {
        "conflict-rich worlds whose root requirements are all Single (distinct and repeated packages), no soft requirements, random activity params; F = first-ranked candidate of every root requirement; precondition (reference DPLL): problem AND all of F is satisfiable (else skipped); oracle: F is a subset of S; non-trivial = precondition holds and the first-choice closure is inconsistent (a conflict below the roots had to be resolved); distinct = (world, trace, plan) hash; one seed in five has packages with 21-60 candidates, some of them excluded"
    }
    fn gen(&self, seed: u64, tier: Tier) -> Vec<Scenario> {
        let mut base = GenParams::conflict_rich();
        base.p_union = if seed % 4 == 0 { 2 } else { 0 };
        base.max_root_reqs = 4;
        base.max_reqs = 3;
        if seed % 3 != 0 {
            // direct requirements with wide version sets (so that their best candidates are usually jointly
            // installable) over dependencies with narrow ones and many constrains (conflicts below the roots)
            base.root_vs_weights = Some([6, 0, 2, 2]);
            base.max_root_constraints = 0;
            base.min_packages = 4;
            base.max_packages = 10;
            base.max_candidates = 4;
            base.max_constrains = 3;
            base.p_unknown = 0;
            base.p_excluded = 0;
            base.p_locked = 0;
            base.vs_weights = [1, 6, 5, 3];
        }
        if seed % 7 == 0 {
            // soft requirements come after the hard problem: they may not displace the best candidate of a direct
            // requirement either
            base.max_soft = 2;
        }
        if seed % 5 == 0 {
            // packages with 21..60 candidates, some of them excluded (library sorts and partitions change
            // algorithm with the length of the slice)
            base.p_big_package = 6;
            base.p_excluded = 1;
            base.max_solvables = 140;
        }
        let mut sc = std_scenario(seed, &swarm(seed, base, tier), None);
        // root requirements must be single version sets
        let w = sc.world.clone();
        for r in sc.solves[0].problem.requirements.iter_mut() {
            if let Req::Union(u) = r {
                *r = Req::Single(w.unions[u][0]);
            }
        }
        vec![sc]
    }
    fn judge(&self, sc: &Scenario) -> Verdict {
        let p = hard_only(&sc.solves[0].problem);
        let mut f = Vec::new();
        // soft requirements are solved after the hard problem and cannot displace what it installed, so the guarantee
        // does not depend on their absence
        let mut pre = true;
        for r in &p.requirements {
            match r {
                Req::Single(vs) => match sc.world.sorted(*vs).first() {
                    Some(&x) => f.push(x),
                    None => pre = false,
                },
                Req::Union(_) => pre = false,
            }
        }
        if !pre {
            let mut v = Verdict::default();
            v.skipped_pre = true;
            return v;
        }
        match reference::ref_solve(&sc.world, &p, &f, Leniency::Strict) {
            Sat::Sat(_) => {}
            Sat::Unsat => {
                let mut v = Verdict::default();
                v.skipped_pre = true;
                return v;
            }
            Sat::Unknown => {
                let mut v = Verdict::default();
                v.inconclusive = true;
                return v;
            }
        }
        let rec = execute(sc);
        let mut v = base_verdict(sc, &rec);
        match &rec.outcomes[0] {
            Outcome::Ok(s) => {
                v.evaluated = true;
                v.nontrivial = !first_choice(&sc.world, &p, &[]).consistent_exclusive;
                let missing: Vec<u32> = f.iter().copied().filter(|x| !s.contains(x)).collect();
                if !missing.is_empty() {
                    v.violate("direct-downgraded", format!("returned {s:?}; best candidates {f:?} of the direct requirements are jointly installable but {missing:?} not installed"));
                }
            }
            _ => v.aborted_other = true,
        }
        v
    }
}

// =============================================================================================
// C09 — lazy, causal, at-most-once metadata fetching

pub struct C09;

pub fn causality_violation(sc: &Scenario, rec: &RunRecord) -> Option<(String, String)> {
    let w = &sc.world;
    let mut allowed_deps: BTreeSet<u32> = BTreeSet::new();
    let mut allowed_names: BTreeSet<u32> = BTreeSet::new();
    let mut rid_info: BTreeMap<u64, (Kind, u32)> = BTreeMap::new();
    let mut learn = |reqs: &[Req], cons: &[u32], ad: &mut BTreeSet<u32>, an: &mut BTreeSet<u32>| {
        for r in reqs {
            ad.extend(w.req_cand_set(r));
        }
        an.extend(w.names_mentioned(reqs, cons));
    };
    for e in &rec.log {
        match e {
            Ev::SolveBegin(i) => {
                let p = &sc.solves[*i].problem;
                learn(&p.requirements, &p.constraints, &mut allowed_deps, &mut allowed_names);
                allowed_deps.extend(p.soft.iter().copied());
            }
            Ev::Start { rid, kind, arg, in_sort, .. } => {
                rid_info.insert(*rid, (*kind, *arg));
                if *in_sort {
                    continue;
                }
                match kind {
                    Kind::Deps => {
                        if !allowed_deps.contains(arg) {
                            return Some(("causality:deps".into(), format!("get_dependencies({arg}) although {arg} is neither a soft requirement nor a matching candidate of any requirement obtained so far")));
                        }
                    }
                    Kind::Cand => {
                        // a soft solvable's package is looked at only through its own metadata, so only names
                        // mentioned by obtained dependency sets are legitimate
                        if !allowed_names.contains(arg) {
                            return Some(("causality:cand".into(), format!("get_candidates({arg}) although no dependency set obtained so far mentions package {arg}")));
                        }
                    }
                    _ => {}
                }
            }
            Ev::Deliver { rid } => {
                if let Some((Kind::Deps, s)) = rid_info.get(rid) {
                    if let Some((reqs, cons)) = w.known_deps(*s) {
                        learn(reqs, cons, &mut allowed_deps, &mut allowed_names);
                    }
                }
            }
            _ => {}
        }
    }
    None
}

impl Property for C09 {
    fn id(&self) -> &'static str {
        "C09"
    }
    fn runs(&self, tier: Tier) -> u64 {
        match tier {
            Tier::Quick => 400_000,
            Tier::Thorough => 8_000_000,
        }
    }
    fn rule(&self) -> &'static str {
        "worlds without availability hints; sync and async; single solves and sequences of 2-3 solves on one solver; oracle over the provider call log: (a) causality of every get_dependencies / get_candidates start w.r.t. dependency sets already delivered, (b) at most one request per name / solvable per solver unless the earlier one was dropped in flight, (c) on instances meeting C07's precondition the fetched solvables equal the first-choice closure and the fetched names equal those mentioned by root and the closure; non-trivial = at least 3 get_dependencies calls; distinct = (world, trace, plan) hash; on half of the histories earlier solves are cancelled at a seeded poll (between any two provider calls); what later solves ask for is still judged"
    }
    fn gen(&self, seed: u64, tier: Tier) -> Vec<Scenario> {
        let base = match seed % 3 {
            0 => GenParams::conflict_free(),
            1 => GenParams::conflict_rich(),
            _ => GenParams::wide(),
        };
        let mut params = swarm(seed, base, tier);
        params.hint_weights = [1, 0, 0, 0];
        if seed % 5 == 0 {
            params.max_soft = 2;
        }
        let mut wr = Rng::stream(seed, "world");
        let n_solves = if seed % 4 == 0 { 1 + wr.below(3) } else { 1 };
        let (mut w, ps) = gen_world(&mut wr, &params, n_solves);
        no_hints(&mut w);
        let mut sc = Scenario::basic(w, ps[0].clone());
        sc.solves = ps.into_iter().map(|p| SolveSpec { problem: p, cancel: None }).collect();
        let mut cr = Rng::stream(seed, "config");
        gen_config(&mut cr, &mut sc, None);
        sc.hash_salt = Rng::stream(seed, "hash_salt").next_u64();
        // on some histories an earlier solve is cancelled at a seeded poll (between any two provider calls): what the
        // later solves ask for is still judged
        let mut fr = Rng::stream(seed, "faults");
        if sc.solves.len() > 1 && fr.chance(1, 2) {
            sc.spurious_p = 0;
            let base_rec = execute(&sc);
            let mut polls: Vec<u64> = Vec::new();
            let mut cur = 0u64;
            for e in &base_rec.log {
                match e {
                    Ev::SolveBegin(_) => cur = 0,
                    Ev::CancelPoll { .. } => cur += 1,
                    Ev::SolveEnd(_) => polls.push(cur),
                    _ => {}
                }
            }
            let last = sc.solves.len() - 1;
            for (i, s) in sc.solves.iter_mut().enumerate() {
                if i < last && i < polls.len() && polls[i] > 0 && fr.chance(2, 3) {
                    s.cancel = Some(CancelPlan { at_poll: fr.below(polls[i] as usize) as u64, mode: CancelMode::Persistent });
                }
            }
        }
        vec![sc]
    }
    fn judge(&self, sc: &Scenario) -> Verdict {
        if sc.world.packages.values().any(|p| !matches!(&p.hint, Hint::None) && p.hint != Hint::Some(vec![])) || sc.reentrant_sort {
            let mut v = Verdict::default();
            v.skipped_pre = true;
            return v;
        }
        let rec = execute(sc);
        let mut v = base_verdict(sc, &rec);
        if rec.outcomes.iter().any(|o| o.is_crash()) {
            v.aborted_other = true;
            return v;
        }
        v.evaluated = true;
        let dep_starts = starts_of(&rec, Kind::Deps);
        v.nontrivial = dep_starts.len() >= 3;
        if let Some((c, d)) = causality_violation(sc, &rec) {
            v.violate(c, d);
        }
        if let Some(a) = duplicate_request(&rec, Kind::Cand, false) {
            v.violate("dup:cand", format!("get_candidates({a}) requested twice on one solver"));
        }
        if let Some(a) = duplicate_request(&rec, Kind::Deps, false) {
            v.violate("dup:deps", format!("get_dependencies({a}) requested twice on one solver"));
        }
        // (c) exactness on conflict-free solves, also for later solves on a used solver: what this solve asks the
        // provider for lies inside the first-choice closure (resp. the names it and the root mention), and
        // everything of it that was not obtained by an earlier solve is asked for
        {
            let mut rid_info: BTreeMap<u64, (Kind, u32)> = BTreeMap::new();
            let mut have_deps: BTreeSet<u32> = BTreeSet::new();
            let mut have_cand: BTreeSet<u32> = BTreeSet::new();
            let mut cur: Option<usize> = None;
            let mut asked_deps: BTreeSet<u32> = BTreeSet::new();
            let mut asked_cand: BTreeSet<u32> = BTreeSet::new();
            let mut before_deps: BTreeSet<u32> = BTreeSet::new();
            let mut before_cand: BTreeSet<u32> = BTreeSet::new();
            for e in &rec.log {
                match e {
                    Ev::SolveBegin(i) => {
                        cur = Some(*i);
                        asked_deps.clear();
                        asked_cand.clear();
                        before_deps = have_deps.clone();
                        before_cand = have_cand.clone();
                    }
                    Ev::Start { rid, kind, arg, .. } => {
                        rid_info.insert(*rid, (*kind, *arg));
                        match kind {
                            Kind::Deps => {
                                asked_deps.insert(*arg);
                            }
                            Kind::Cand => {
                                asked_cand.insert(*arg);
                            }
                            _ => {}
                        }
                    }
                    Ev::Deliver { rid } => match rid_info.get(rid) {
                        Some((Kind::Deps, a)) => {
                            have_deps.insert(*a);
                        }
                        Some((Kind::Cand, a)) => {
                            have_cand.insert(*a);
                        }
                        _ => {}
                    },
                    Ev::SolveEnd(i) if cur == Some(*i) => {
                        let spec = &sc.solves[*i];
                        if !spec.problem.soft.is_empty() || spec.cancel.is_some() || !matches!(rec.outcomes.get(*i), Some(Outcome::Ok(_))) {
                            continue;
                        }
                        let p = hard_only(&spec.problem);
                        let fc = first_choice(&sc.world, &p, &[]);
                        if !fc.consistent_exclusive {
                            continue;
                        }
                        let extra: Vec<u32> = asked_deps.difference(&fc.set).copied().collect();
                        let missing: Vec<u32> = fc.set.iter().copied().filter(|x| !before_deps.contains(x) && !asked_deps.contains(x)).collect();
                        if !extra.is_empty() {
                            v.violate("exact:deps-extra", format!("solve #{i} (conflict-free): dependencies fetched for {asked_deps:?}, but the solution / first-choice closure is {:?}: {extra:?} were never needed", fc.set));
                        } else if !missing.is_empty() {
                            v.violate("exact:deps-missing", format!("solve #{i} (conflict-free): dependencies of {missing:?} were never obtained although they are installed"));
                        }
                        let mut names = sc.world.names_mentioned(&p.requirements, &p.constraints);
                        for x in &fc.set {
                            if let Some((r, c)) = sc.world.known_deps(*x) {
                                names.extend(sc.world.names_mentioned(r, c));
                            }
                        }
                        let extra_n: Vec<u32> = asked_cand.difference(&names).copied().collect();
                        let missing_n: Vec<u32> = names.iter().copied().filter(|x| !before_cand.contains(x) && !asked_cand.contains(x)).collect();
                        // names that dependency sets obtained by earlier solves mention but whose candidates no earlier
                        // solve obtained: only a solve that was cancelled between the two requests leaves any
                        let mut orphaned: BTreeSet<u32> = BTreeSet::new();
                        for x in &before_deps {
                            if let Some((r, c)) = sc.world.known_deps(*x) {
                                orphaned.extend(sc.world.names_mentioned(r, c).into_iter().filter(|n| !before_cand.contains(n)));
                            }
                        }
                        let earlier_cancelled = sc.solves[..*i].iter().any(|s| s.cancel.is_some());
                        if missing_n.is_empty() && !extra_n.is_empty() && earlier_cancelled && extra_n.iter().all(|n| orphaned.contains(n)) {
                            v.violate("exact:cand-after-cancelled-solve", format!("solve #{i} (conflict-free): candidates fetched for {extra_n:?}, which neither the root nor the solution mentions; they are mentioned by dependencies that an earlier, cancelled solve obtained for solvables that are not installed now"));
                        } else if !extra_n.is_empty() || !missing_n.is_empty() {
                            v.violate("exact:cand", format!("solve #{i} (conflict-free): candidates fetched for {asked_cand:?}, names mentioned by root and solution are {names:?} (extra {extra_n:?}, missing {missing_n:?})"));
                        }
                    }
                    _ => {}
                }
            }
        }
        v
    }
}

// =============================================================================================
// C10 — any completion order gives a correct result

pub struct C10;

impl Property for C10 {
    fn id(&self) -> &'static str {
        "C10"
    }
    fn runs(&self, tier: Tier) -> u64 {
        match tier {
            Tier::Quick => 60_000,
            Tier::Thorough => 1_000_000,
        }
    }
    fn rule(&self) -> &'static str {
        "asynchronous runs under the simulator's executor: each seeded world is run under m schedules (m=8 quick, 16 thorough) drawn from all policies (random, FIFO, LIFO, virtual-time latencies, starvation of a kind or of the oldest request, batching, spurious wakes) and yield masks; one seed in five is a two-solve history on one solver whose first solve is cancelled at a seeded poll (requests dropped in flight); oracle per schedule and per solve: terminates (no deadlock = root future pending with nothing in flight; no budget), verdict = independent reference (= synchronous verdict), Ok(S) valid, at most one get_candidates per name and one solver-originated get_dependencies per solvable over the solver's lifetime (a request dropped in flight may be re-issued); non-trivial = at least 2 quiescent points and >= 3 requests completed; distinct = (world, completion trace) hash; families: wide fan-out, shared requirement (an installed solvable and eagerly encoded undecided candidates ask for the same version set, whose candidates are already constrained away)"
    }
    fn gen(&self, seed: u64, tier: Tier) -> Vec<Scenario> {
        let base = match seed % 3 {
            0 => GenParams::wide(),
            _ => GenParams::conflict_rich(),
        };
        let mut params = swarm(seed, base, tier);
        if seed % 2 == 0 {
            params.max_soft = 2;
        }
        let mut wr = Rng::stream(seed, "world");
        let history = seed % 5 == 0;
        let (mut w, mut ps) = gen_world(&mut wr, &params, if history { 2 } else { 1 });
        {
            let mut r = Rng::stream(seed, "wide");
            if r.chance(1, 60) {
                let width = r.range(31, 60);
                let (ww, wp) = crate::gen::gen_wide(&mut r, width);
                w = ww;
                for p in ps.iter_mut() {
                    *p = wp.clone();
                }
            } else if r.chance(1, 25) {
                // one requirement shared by an installed solvable and eagerly encoded siblings
                let (ww, wp) = crate::gen::shared_requirement(&mut r);
                w = ww;
                for p in ps.iter_mut() {
                    *p = wp.clone();
                }
            }
        }
        let m = if tier == Tier::Quick { 8 } else { 16 };
        let mut out = Vec::new();
        let mut cr = Rng::stream(seed, "config");
        let mut fr = Rng::stream(seed, "faults");
        let salt = Rng::stream(seed, "hash_salt").next_u64();
        let reentrant = seed % 7 == 0;
        for _ in 0..m {
            let mut sc = Scenario::basic(w.clone(), ps[0].clone());
            gen_config(&mut cr, &mut sc, Some(true));
            sc.hash_salt = salt;
            sc.reentrant_sort = reentrant;
            if history {
                sc.spurious_p = 0;
                // first solve cancelled at a seeded poll, second solve (other or same problem) must still work
                let polls = execute(&sc).stats.cancel_polls.max(1);
                sc.solves[0].cancel = Some(CancelPlan {
                    at_poll: fr.below(polls as usize) as u64,
                    mode: CancelMode::Persistent,
                });
                let second = if fr.chance(1, 2) { ps[0].clone() } else { ps[1].clone() };
                sc.solves.push(SolveSpec { problem: second, cancel: None });
            }
            out.push(sc);
        }
        out
    }
    fn judge(&self, sc: &Scenario) -> Verdict {
        let rec = execute(sc);
        let mut v = base_verdict(sc, &rec);
        v.evaluated = true;
        v.nontrivial = rec.stats.quiescent_points >= 2 && rec.stats.completions >= 3;
        for (i, o) in rec.outcomes.iter().enumerate() {
            let p = &sc.solves[i].problem;
            let single = |keep: usize| {
                let mut s = sc.clone();
                s.solves = vec![sc.solves[keep].clone()];
                s.solves[0].cancel = None;
                s.runtime = RuntimeKind::NowOrNever;
                s
            };
            match o {
                Outcome::Deadlock => v.violate("deadlock", format!("solve #{i} waits although no provider request is in flight")),
                Outcome::StepBudget => v.violate("hang:steps", format!("solve #{i}: scheduler step budget exceeded")),
                Outcome::Cancelled(Some(Token::Budget)) => v.violate("hang:polls", format!("solve #{i}: poll budget exceeded")),
                Outcome::Panic(_) => {
                    // is the panic schedule-dependent? compare with the synchronous fresh run
                    let r2 = execute(&single(i));
                    if matches!(r2.outcomes[0], Outcome::Panic(_)) {
                        v.aborted_other = true;
                        v.evaluated = false;
                    } else if let Some((c, d)) = crash_class(o) {
                        v.violate(format!("async-only-{c}"), format!("solve #{i}: {d}"));
                    }
                }
                o => {
                    if let Some(got) = o.verdict() {
                        match ref_verdict(&sc.world, p) {
                            None => v.inconclusive = true,
                            Some(want) => {
                                if got != want {
                                    v.violate("verdict", format!("solve #{i}: async verdict {} but reference says {}", got, want));
                                }
                            }
                        }
                        if let Outcome::Ok(s) = o {
                            if let Some((cat, text)) = validity_errors(&sc.world, p, s).first() {
                                // C01 defects that also occur synchronously are C01's business
                                let r2 = execute(&single(i));
                                let sync_bad = matches!(&r2.outcomes[0], Outcome::Ok(s2) if !validity_errors(&sc.world, p, s2).is_empty());
                                if sync_bad {
                                    v.aborted_other = true;
                                } else {
                                    v.violate(format!("invalid:{cat}"), format!("solve #{i}: async run returned {s:?}: {text}"));
                                }
                            }
                        }
                    }
                }
            }
        }
        if let Some(a) = duplicate_request(&rec, Kind::Cand, false) {
            v.violate("dup:cand", format!("get_candidates({a}) requested twice"));
        }
        if !sc.reentrant_sort {
            if let Some(a) = duplicate_request(&rec, Kind::Deps, false) {
                v.violate("dup:deps", format!("get_dependencies({a}) requested twice"));
            }
        }
        if !rec.cache_mismatch.is_empty() {
            v.violate("cache-mismatch", rec.cache_mismatch[0].clone());
        }
        v
    }
}

// =============================================================================================
// C11 — independent requests are issued concurrently

pub struct C11;

pub fn serialization_violation(sc: &Scenario, rec: &RunRecord) -> Option<(String, String)> {
    let w = &sc.world;
    let mut needed: BTreeSet<u32> = BTreeSet::new();
    let mut started: BTreeSet<u32> = BTreeSet::new();
    let mut rid_info: BTreeMap<u64, (Kind, u32)> = BTreeMap::new();
    let mut first_q = true;
    for e in &rec.log {
        match e {
            Ev::SolveBegin(i) => {
                let p = &sc.solves[*i].problem;
                needed.extend(w.names_mentioned(&p.requirements, &p.constraints));
            }
            Ev::Start { rid, kind, arg, .. } => {
                rid_info.insert(*rid, (*kind, *arg));
                if *kind == Kind::Cand {
                    started.insert(*arg);
                }
            }
            Ev::Deliver { rid } => {
                if let Some((Kind::Deps, s)) = rid_info.get(rid) {
                    if let Some((reqs, cons)) = w.known_deps(*s) {
                        needed.extend(w.names_mentioned(reqs, cons));
                    }
                }
            }
            Ev::Quiescent { pending } => {
                let missing: Vec<u32> = needed.difference(&started).copied().collect();
                if !missing.is_empty() {
                    let pend: Vec<String> = pending
                        .iter()
                        .filter_map(|r| rid_info.get(r))
                        .map(|(k, a)| format!("{k:?}({a})"))
                        .collect();
                    return Some((
                        if first_q { "serialized:root".into() } else { "serialized".into() },
                        format!("solver blocked on {pend:?} but get_candidates for packages {missing:?}, already implied by received dependency information, was not issued"),
                    ));
                }
                first_q = false;
            }
            _ => {}
        }
    }
    None
}

impl Property for C11 {
    fn id(&self) -> &'static str {
        "C11"
    }
    fn runs(&self, tier: Tier) -> u64 {
        match tier {
            Tier::Quick => 400_000,
            Tier::Thorough => 8_000_000,
        }
    }
    fn rule(&self) -> &'static str {
        "asynchronous runs with wide fan-out (roots with 1..8 requirements on distinct packages, solvables with many requirements / constrains, unions), no cancellation, no re-entrancy; oracle at every quiescent point of the schedule (root future Pending, nothing woken): every package mentioned by a dependency set that was already delivered (root's included) has a get_candidates start in the history; non-trivial = >= 2 quiescent points and max in-flight >= 2; distinct = (world, completion trace) hash"
    }
    fn gen(&self, seed: u64, tier: Tier) -> Vec<Scenario> {
        let mut base = match seed % 2 {
            0 => GenParams::wide(),
            _ => GenParams::conflict_free(),
        };
        base.max_root_reqs = 8;
        base.max_reqs = 5;
        base.max_constrains = 3;
        base.max_packages = 10;
        let params = swarm(seed, base, tier);
        let mut sc = std_scenario(seed, &params, Some(true));
        maybe_wide(seed, &mut sc, 60);
        sc.yield_mask |= Y_CAND;
        if seed % 3 == 0 {
            sc.yield_mask |= Y_DEPS;
        }
        sc.reentrant_sort = false;
        vec![sc]
    }
    fn judge(&self, sc: &Scenario) -> Verdict {
        if sc.reentrant_sort || sc.runtime != RuntimeKind::Sim || sc.solves.iter().any(|s| s.cancel.is_some()) {
            let mut v = Verdict::default();
            v.skipped_pre = true;
            return v;
        }
        let rec = execute(sc);
        let mut v = base_verdict(sc, &rec);
        if rec.outcomes.iter().any(|o| o.is_crash()) {
            v.aborted_other = true;
            return v;
        }
        v.evaluated = true;
        v.nontrivial = rec.stats.quiescent_points >= 2 && rec.stats.max_in_flight >= 2;
        if let Some((c, d)) = serialization_violation(sc, &rec) {
            v.violate(c, d);
        }
        v
    }
}

// =============================================================================================
// C12 — cancellation is prompt and faithful (fault enumeration over poll indices)

pub struct C12;

fn call_signature(rec: &RunRecord) -> Vec<(Kind, u32)> {
    rec.log
        .iter()
        .filter_map(|e| match e {
            Ev::Start { kind, arg, .. } => Some((*kind, *arg)),
            _ => None,
        })
        .collect()
}

impl Property for C12 {
    fn id(&self) -> &'static str {
        "C12"
    }
    fn level(&self) -> &'static str {
        "fault_enumeration"
    }
    fn runs(&self, tier: Tier) -> u64 {
        match tier {
            Tier::Quick => 20_000,
            Tier::Thorough => 400_000,
        }
    }
    fn rule(&self) -> &'static str {
        "for each seeded (world, problem incl. soft requirements, sync or async schedule): a baseline run counts P polls of should_cancel_with_value, then EVERY poll index k < P (all of them when P <= 64, else 64 seeded indices plus 0, 1, P-1) is faulted twice: persistent from k and transient at k only, plus one never-firing plan (k = P + 5); oracle: result is Cancelled carrying a token handed out at a fired poll, no get_candidates / get_dependencies start after the first Some, never Ok / Unsolvable; never-firing plan: result and provider call sequence equal the baseline; non-trivial = cancellation fired at a poll index >= 1; distinct = (world, trace, fault plan) hash; per faulted run the cancellation value is a struct, a String, a &'static str, a u64 or a tuple, and on a third of the seeds half of the runs have a tracing subscriber enabled at every level; additional oracle: between the first poll that answered Some and the return of solve the solve future is never left pending (it does not wait for requests in flight)"
    }
    fn gen(&self, seed: u64, tier: Tier) -> Vec<Scenario> {
        let mut base = match seed % 3 {
            0 => GenParams::wide(),
            _ => GenParams::conflict_rich(),
        };
        if seed % 2 == 0 {
            base.max_soft = 2;
        }
        let mut sc = std_scenario(seed, &swarm(seed, base, tier), None);
        if maybe_wide(seed, &mut sc, 40) {
            // the interesting cancellation points of a wide world need requests in flight
            let mut cr = Rng::stream(seed, "wide-config");
            gen_config(&mut cr, &mut sc, Some(true));
        } else {
            // long propagation rounds and encoding passes with more than a thousand results
            maybe_chain_kind(seed, &mut sc, 320, true);
        }
        // explicit trace-free policies only (the schedule must not depend on the fault)
        sc.spurious_p = 0;
        let base_rec = execute(&sc);
        if base_rec.outcomes.iter().any(|o| o.is_crash()) {
            return vec![];
        }
        let p = base_rec.stats.cancel_polls;
        let mut ks: Vec<u64> = if p <= 64 {
            (0..p).collect()
        } else {
            let mut r = Rng::stream(seed, "faults");
            let mut s: BTreeSet<u64> = [0, 1, p - 1].into_iter().collect();
            while s.len() < 64 {
                s.insert(r.below(p as usize) as u64);
            }
            s.into_iter().collect()
        };
        ks.push(p + 5);
        let mut out = Vec::new();
        // the type of the cancellation value and whether a tracing subscriber listens vary per faulted run
        let mut tr = Rng::stream(seed, "token-repr");
        let subscriber_seed = tr.chance(1, 3);
        for k in ks {
            for mode in [CancelMode::Persistent, CancelMode::Transient] {
                if k > p && mode == CancelMode::Transient {
                    continue;
                }
                let mut s2 = sc.clone();
                s2.solves[0].cancel = Some(CancelPlan { at_poll: k, mode });
                s2.token_repr = tr.below(5) as u8;
                s2.trace_subscriber = subscriber_seed && tr.chance(1, 2);
                out.push(s2);
            }
        }
        out
    }
    fn judge(&self, sc: &Scenario) -> Verdict {
        let rec = execute(sc);
        let mut v = base_verdict(sc, &rec);
        let first_fire = rec.log.iter().position(|e| matches!(e, Ev::CancelPoll { fired: true, .. }));
        match first_fire {
            None => {
                // never fired: must equal the baseline without a plan
                let mut base = sc.clone();
                for s in base.solves.iter_mut() {
                    s.cancel = None;
                }
                let r0 = execute(&base);
                if r0.outcomes.iter().any(|o| o.is_crash()) {
                    v.aborted_other = true;
                    return v;
                }
                v.evaluated = true;
                let a: Vec<String> = rec.outcomes.iter().map(|o| o.short()).collect();
                let b: Vec<String> = r0.outcomes.iter().map(|o| o.short()).collect();
                if a != b {
                    v.violate("polling-changes-result", format!("plan that never fires gives {a:?}, baseline {b:?}"));
                } else if call_signature(&rec) != call_signature(&r0) {
                    v.violate("polling-changes-calls", "plan that never fires changes the provider call sequence");
                }
            }
            Some(idx) => {
                let fired: Vec<u64> = rec
                    .log
                    .iter()
                    .filter_map(|e| match e {
                        Ev::CancelPoll { n, fired: true } => Some(*n),
                        _ => None,
                    })
                    .collect();
                v.evaluated = true;
                v.nontrivial = fired[0] >= 1;
                match &rec.outcomes[0] {
                    Outcome::Cancelled(Some(Token::Cancel { solve: 0, poll })) if fired.contains(poll) => {
                        if *poll != fired[0] {
                            *v.probes.entry("token_not_first").or_insert(0) += 1;
                        }
                    }
                    Outcome::Cancelled(t) => v.violate("wrong-token", format!("cancelled at polls {fired:?} but solve returned Cancelled({t:?})")),
                    Outcome::Ok(_) => v.violate("ok-after-cancel", format!("should_cancel_with_value answered Some at poll {} but solve returned {}", fired[0], rec.outcomes[0].short())),
                    Outcome::Unsolvable(_) => v.violate("unsolvable-after-cancel", format!("should_cancel_with_value answered Some at poll {} but solve returned Unsolvable", fired[0])),
                    o => {
                        // a crash with the fault but not without it is attributed to cancellation handling
                        let mut base = sc.clone();
                        base.solves[0].cancel = None;
                        let r0 = execute(&base);
                        if r0.outcomes[0].is_crash() {
                            v.aborted_other = true;
                            v.evaluated = false;
                        } else if let Some((c, d)) = crash_class(o) {
                            v.violate(format!("cancel-{c}"), d);
                        }
                    }
                }
                if !sc.reentrant_sort {
                    if let Some((_, n)) = crate::props::waits_after_cancel(&rec) {
                        v.violate("waits-after-cancel", format!("should_cancel_with_value answered Some at poll {n}, but solve left its future pending afterwards and waited for requests in flight"));
                    }
                }
                for (i, e) in rec.log.iter().enumerate().skip(idx + 1) {
                    if let Ev::Start { kind, arg, in_sort: false, .. } = e {
                        if matches!(kind, Kind::Cand | Kind::Deps) {
                            let _ = i;
                            v.violate(
                                "start-after-cancel",
                                format!("{kind:?}({arg}) started after should_cancel_with_value answered Some at poll {}", fired[0]),
                            );
                            break;
                        }
                    }
                }
                // probes: where did it strike
                let in_flight = rec.log[..idx]
                    .iter()
                    .rev()
                    .find_map(|e| match e {
                        Ev::Quiescent { pending } => Some(pending.len()),
                        _ => None,
                    })
                    .unwrap_or(0);
                if rec.stats.dropped_in_flight > 0 {
                    *v.probes.entry("cancel_with_requests_in_flight").or_insert(0) += 1;
                }
                let _ = in_flight;
                let prev = rec.log[..idx].iter().rev().find(|e| !matches!(e, Ev::CancelPoll { .. }));
                let next = rec.log.get(idx + 1);
                let site = match (prev, next) {
                    _ if !sc.solves[0].problem.soft.is_empty() && matches!(rec.outcomes[0], Outcome::Cancelled(_)) && {
                        // fired after the hard problem was solved? approximate: all root-reachable work done
                        false
                    } => "soft",
                    (Some(Ev::Start { .. }), _) | (Some(Ev::Deliver { .. }), _) => "during_fetching",
                    _ => "propagate",
                };
                *v.probes.entry(site).or_insert(0) += 1;
            }
        }
        v
    }
}

// =============================================================================================
// C13 — a solver can be reused

pub struct C13;

impl Property for C13 {
    fn id(&self) -> &'static str {
        "C13"
    }
    fn runs(&self, tier: Tier) -> u64 {
        match tier {
            Tier::Quick => 300_000,
            Tier::Thorough => 4_000_000,
        }
    }
    fn rule(&self) -> &'static str {
        "histories of 2-5 solve calls on one solver over one seeded world (same problem again, different requirements / constraints / soft lists, UNSAT then SAT), with cancellation (persistent during one call, cleared before the next) striking at a seeded poll index, also while requests are in flight; sync and async; oracle per call: terminates (no deadlock / budget), does not crash where a fresh solver does not, verdict = reference, Ok(S) valid; across the history: no get_candidates(name) / get_dependencies(solvable) whose earlier request was delivered is started again; non-trivial = history with >= 2 completed calls, at least one of which reuses cached metadata; distinct = (world, trace, plan) hash; long-lived solvers: on one seed in 400 a history of 1-3 small problems is repeated 150-2000 times on one solver, on one in 25000 more than 65536 times; a cancelled call returns at the poll that told it so (its future is not left pending afterwards)"
    }
    fn gen(&self, seed: u64, tier: Tier) -> Vec<Scenario> {
        let mut base = match seed % 3 {
            0 => GenParams::wide(),
            1 => GenParams::conflict_rich(),
            _ => GenParams::conflict_free(),
        };
        if seed % 2 == 0 {
            base.max_soft = 2;
        }
        let params = swarm(seed, base, tier);
        let mut wr = Rng::stream(seed, "world");
        let n = 2 + wr.below(4);
        let (w, mut ps) = gen_world(&mut wr, &params, n);
        let mut hr = Rng::stream(seed, "history");
        // sometimes repeat an earlier problem verbatim
        for i in 1..ps.len() {
            if hr.chance(1, 3) {
                ps[i] = ps[hr.below(i)].clone();
            }
        }
        let mut sc = Scenario::basic(w, ps[0].clone());
        sc.solves = ps.into_iter().map(|p| SolveSpec { problem: p, cancel: None }).collect();
        let mut cr = Rng::stream(seed, "config");
        gen_config(&mut cr, &mut sc, None);
        sc.activity = gen_activity(&mut cr);
        sc.hash_salt = Rng::stream(seed, "hash_salt").next_u64();
        sc.spurious_p = 0;
        if maybe_chain(seed, &mut sc, 3000) {
            return vec![sc];
        }
        // long-lived solver: a short history of small problems repeated hundreds of times on one solver (counters and
        // scores that are carried from call to call), and on very few seeds more than 2^16 times
        {
            let mut lr = Rng::stream(seed, "long-lived");
            let long = lr.chance(1, 400);
            let very_long = lr.chance(1, 25_000);
            if (long || very_long) && sc.world.n_solvables() <= 24 {
                sc.solves.truncate(1 + lr.below(3));
                sc.repeat = if very_long { lr.range(65_540, 66_000) as u32 } else { lr.range(150, 2_000) as u32 };
                sc.runtime = crate::run::RuntimeKind::NowOrNever;
                sc.yield_mask = 0;
                sc.reentrant_sort = false;
                sc.render = false;
                sc.capture_state = false;
                return vec![sc];
            }
        }
        // one package with 130..300 hinted candidates, asynchronous provider: hundreds of get_dependencies requests are
        // in flight when the first call is cancelled; the next call needs them again
        let mut size_family = false;
        {
            let mut sr = Rng::stream(seed, "size-hinted");
            if sr.chance(1, 400) {
                let n = sr.range(130, 300);
                let i = sr.below(n);
                let (mut w, reqs, _exact) = crate::checks2::c15_world(&mut sr, n, i);
                w.packages.get_mut(&0).unwrap().hint = Hint::All;
                let p = ProblemSpec { requirements: reqs, constraints: vec![], soft: vec![] };
                sc.world = w;
                sc.solves = vec![SolveSpec { problem: p.clone(), cancel: None }, SolveSpec { problem: p, cancel: None }];
                let mut cr2 = Rng::stream(seed, "size-hinted-config");
                gen_config(&mut cr2, &mut sc, Some(true));
                sc.yield_mask |= Y_CAND | Y_DEPS;
                sc.immediate_p = 0;
                sc.reentrant_sort = false;
                sc.spurious_p = 0;
                size_family = true;
            }
        }
        // cancellation faults
        if seed % 2 == 1 || size_family {
            let base_rec = execute(&sc);
            let mut fr = Rng::stream(seed, "faults");
            // polls per solve in the fault-free history
            let mut polls: Vec<u64> = Vec::new();
            let mut cur = 0u64;
            for e in &base_rec.log {
                match e {
                    Ev::SolveBegin(_) => cur = 0,
                    Ev::CancelPoll { .. } => cur += 1,
                    Ev::SolveEnd(_) => polls.push(cur),
                    _ => {}
                }
            }
            let last = sc.solves.len() - 1;
            for (i, s) in sc.solves.iter_mut().enumerate() {
                if i < last && i < polls.len() && polls[i] > 0 && (size_family || fr.chance(1, 2)) {
                    s.cancel = Some(CancelPlan {
                        at_poll: fr.below(polls[i] as usize) as u64,
                        mode: CancelMode::Persistent,
                    });
                }
            }
        }
        vec![sc]
    }
    fn judge(&self, sc: &Scenario) -> Verdict {
        let rec = execute(sc);
        let mut v = base_verdict(sc, &rec);
        let mut completed = 0;
        let n_specs = sc.solves.len();
        if sc.repeat > 1 {
            *v.probes.entry("long_lived_solver_over_100_calls").or_insert(0) += 1;
            if sc.repeat > 65_536 {
                *v.probes.entry("long_lived_solver_over_65536_calls").or_insert(0) += 1;
            }
        }
        // the reference verdict of a problem that recurs in a long history is computed once
        let mut ref_memo: BTreeMap<usize, Option<bool>> = BTreeMap::new();
        for (i, o) in rec.outcomes.iter().enumerate() {
            let i_spec = i % n_specs;
            let p = &sc.solves[i_spec].problem;
            if o.is_crash() {
                // does a fresh solver crash as well?
                let mut fresh = sc.clone();
                fresh.repeat = 0;
                fresh.solves = vec![sc.solves[i_spec].clone()];
                fresh.solves[0].cancel = None;
                let r0 = execute(&fresh);
                if r0.outcomes[0].is_crash() {
                    v.aborted_other = true;
                } else if let Some((c, d)) = crash_class(o) {
                    v.evaluated = true;
                    v.violate(format!("reuse-{c}"), format!("solve #{i} on the reused solver: {d}; a fresh solver returns {}", r0.outcomes[0].short()));
                }
                break;
            }
            if let Some(got) = o.verdict() {
                completed += 1;
                v.evaluated = true;
                match *ref_memo.entry(i_spec).or_insert_with(|| ref_verdict(&sc.world, p)) {
                    None => v.inconclusive = true,
                    Some(want) => {
                        if got != want {
                            // C02 defects that a fresh solver shows too are not C13's business
                            let mut fresh = sc.clone();
                            fresh.repeat = 0;
                            fresh.solves = vec![sc.solves[i_spec].clone()];
                            let r0 = execute(&fresh);
                            if r0.outcomes[0].verdict() == Some(got) {
                                v.aborted_other = true;
                            } else {
                                v.violate("reuse-verdict", format!("solve #{i} on the reused solver says {got}, reference and fresh solver say {want}"));
                            }
                        }
                    }
                }
                if let Outcome::Ok(s) = o {
                    if let Some((cat, text)) = validity_errors(&sc.world, p, s).first() {
                        let mut fresh = sc.clone();
                        fresh.repeat = 0;
                        fresh.solves = vec![sc.solves[i_spec].clone()];
                        let r0 = execute(&fresh);
                        let fresh_bad = matches!(&r0.outcomes[0], Outcome::Ok(s2) if !validity_errors(&sc.world, p, s2).is_empty());
                        if fresh_bad {
                            v.aborted_other = true;
                        } else {
                            v.violate(format!("reuse-invalid:{cat}"), format!("solve #{i} on the reused solver returned {s:?}: {text}"));
                        }
                    }
                }
            } else if sc.solves[i_spec].cancel.is_none() {
                if let Outcome::Cancelled(_) = o {
                    v.violate("reuse-spurious-cancel", format!("solve #{i} returned Cancelled without a cancellation fault"));
                }
            }
        }
        // a cancelled call returns at the poll that told it so; it does not wait for what is in flight
        if !sc.reentrant_sort {
            if let Some((i, n)) = crate::props::waits_after_cancel(&rec) {
                v.violate("cancelled-call-waits", format!("solve #{i}: should_cancel_with_value answered Some at poll {n}, but the call left its future pending afterwards and waited for requests in flight (it does not return if they never answer)"));
            }
        }
        // metadata obtained earlier is not requested again
        if !sc.reentrant_sort {
            if let Some(a) = refetch(&rec, Kind::Deps) {
                v.violate("refetch:deps", format!("get_dependencies({a}) requested again although an earlier call obtained it"));
            }
        }
        if let Some(a) = refetch(&rec, Kind::Cand) {
            v.violate("refetch:cand", format!("get_candidates({a}) requested again although an earlier call obtained it"));
        }
        let starts = starts_of(&rec, Kind::Deps).len() + starts_of(&rec, Kind::Cand).len();
        v.nontrivial = completed >= 2 && starts > 0;
        v
    }
}

/// A Start for an argument whose earlier request was already delivered.
fn refetch(rec: &RunRecord, kind: Kind) -> Option<u32> {
    let mut delivered: BTreeSet<u32> = BTreeSet::new();
    let mut rid_arg: BTreeMap<u64, u32> = BTreeMap::new();
    for e in &rec.log {
        match e {
            Ev::Start { rid, kind: k, arg, in_sort, .. } if *k == kind => {
                if delivered.contains(arg) && !*in_sort {
                    return Some(*arg);
                }
                rid_arg.insert(*rid, *arg);
            }
            Ev::Deliver { rid } => {
                if let Some(a) = rid_arg.get(rid) {
                    delivered.insert(*a);
                }
            }
            _ => {}
        }
    }
    None
}

// =============================================================================================
// C14 — soft requirements are best-effort and harmless

pub struct C14;

impl Property for C14 {
    fn id(&self) -> &'static str {
        "C14"
    }
    fn runs(&self, tier: Tier) -> u64 {
        match tier {
            Tier::Quick => 400_000,
            Tier::Thorough => 8_000_000,
        }
    }
    fn rule(&self) -> &'static str {
        "hard problem + 1..5 soft solvables of every category (compatible, incompatible, duplicates of the hard solution, other versions of installed packages, excluded, locked-out, Unknown dependencies, packages nobody requests, conflicts below the soft solvable) in seeded order; sync and async; oracle: (a) hard problem satisfiable by the reference => Ok, (b) Valid(S) with the documented exemption, (c) a soft X for which even the lenient reference finds hard AND X unsatisfiable is absent from S, (d) when FirstChoice(hard) united with the first-choice closures of all soft solvables is consistent and exclusive under the strict rules every soft solvable is in S; non-trivial = at least one soft solvable accepted and one rejected, or (d) applied; distinct = (world, trace, plan) hash; a crash that the hard problem alone does not show counts as the soft list turning a solvable problem into an error; family: runs of soft requirements rejected one right after the other"
    }
    fn gen(&self, seed: u64, tier: Tier) -> Vec<Scenario> {
        let mut base = match seed % 3 {
            0 => GenParams::conflict_free(),
            1 => GenParams::conflict_rich(),
            _ => GenParams::wide(),
        };
        base.max_soft = 5;
        base.max_root_reqs = 3;
        // one seed in four: the dense parameter set (few small packages, hints x Unknown x exclusions x constrains at a
        // high rate) with a short hard problem and several soft requirements
        let dense = seed % 4 == 3;
        if dense {
            base = GenParams::dense();
            base.max_soft = 4;
            base.max_root_reqs = 2;
        }
        let params = if dense { base } else { swarm(seed, base, tier) };
        let mut sc = std_scenario(seed, &params, None);
        maybe_unrequested_soft(seed, &mut sc, 4);
        maybe_exempt_soft_family(seed, &mut sc, 8);
        maybe_rejected_soft_run(seed, &mut sc, 12);
        maybe_wide(seed, &mut sc, 400);
        if sc.solves[0].problem.soft.is_empty() && !sc.world.solvables.is_empty() {
            let mut r = Rng::stream(seed, "soft");
            let all: Vec<u32> = sc.world.solvables.keys().copied().collect();
            sc.solves[0].problem.soft.push(*r.pick(&all));
        }
        vec![sc]
    }
    fn judge(&self, sc: &Scenario) -> Verdict {
        let p = &sc.solves[0].problem;
        if p.soft.is_empty() {
            let mut v = Verdict::default();
            v.skipped_pre = true;
            return v;
        }
        let rec = execute(sc);
        let mut v = base_verdict(sc, &rec);
        let hard = hard_only(p);
        let o = &rec.outcomes[0];
        if o.is_crash() {
            // "never turns a solvable problem into an error": a crash that the hard problem alone does not show and
            // that happens although the hard problem has a solution is the soft list's doing
            let mut alone = sc.clone();
            alone.solves[0].problem.soft.clear();
            let r0 = execute(&alone);
            if matches!(r0.outcomes[0], Outcome::Ok(_)) {
                if let Some((c, d)) = crash_class(o) {
                    v.evaluated = true;
                    v.violate(format!("soft-turns-{c}"), format!("the hard problem alone is solved; with the soft requirements: {d}"));
                    return v;
                }
            }
            v.aborted_other = true;
            return v;
        }
        let hard_sat = ref_verdict(&sc.world, &hard);
        match (o, hard_sat) {
            (_, None) => {
                v.inconclusive = true;
            }
            (Outcome::Unsolvable(_), Some(true)) => {
                v.evaluated = true;
                // is it the soft list's fault? solve the hard problem alone
                let mut alone = sc.clone();
                alone.solves[0].problem.soft.clear();
                let r0 = execute(&alone);
                if matches!(r0.outcomes[0], Outcome::Ok(_)) {
                    v.violate("soft-turns-error", "the hard problem alone is solved, adding soft requirements makes it Unsolvable");
                } else {
                    v.aborted_other = true;
                }
            }
            (Outcome::Ok(s), _) => {
                v.evaluated = true;
                let set: BTreeSet<u32> = s.iter().copied().collect();
                if let Some((cat, text)) = validity_errors(&sc.world, p, s).first() {
                    // only report what the soft list causes
                    let mut alone = sc.clone();
                    alone.solves[0].problem.soft.clear();
                    let r0 = execute(&alone);
                    let alone_bad = matches!(&r0.outcomes[0], Outcome::Ok(s2) if !validity_errors(&sc.world, &hard, s2).is_empty());
                    if alone_bad {
                        v.aborted_other = true;
                    } else {
                        v.violate(format!("invalid:{cat}"), format!("with soft {:?} solve returned {s:?}: {text}", p.soft));
                    }
                }
                let mut accepted = 0;
                let mut rejected = 0;
                // soft solvables that cannot be installed whatever else happens (not even with the exemption)
                let mut dead: BTreeSet<u32> = BTreeSet::new();
                for x in &p.soft {
                    if set.contains(x) {
                        accepted += 1;
                    } else {
                        rejected += 1;
                    }
                    if let Sat::Unsat = reference::ref_solve(&sc.world, p, &[*x], Leniency::SoftExempt) {
                        dead.insert(*x);
                        if set.contains(x) {
                            v.violate("uninstallable-soft-included", format!("soft solvable {x} cannot be part of any valid selection but is in {s:?}"));
                        }
                    }
                }
                // (d) inclusion
                let fc_hard = first_choice(&sc.world, &hard, &[]);
                let mut applied_d = false;
                if fc_hard.consistent_exclusive {
                    let fc_all = first_choice(&sc.world, &hard, &p.soft);
                    if fc_all.consistent_exclusive {
                        applied_d = true;
                        let missing: Vec<u32> = p.soft.iter().copied().filter(|x| !set.contains(x)).collect();
                        if !missing.is_empty() {
                            v.violate("compatible-soft-skipped", format!("soft solvables {missing:?} are compatible (joint first-choice closure {:?} is valid) but were not installed: {s:?}", fc_all.set));
                        }
                    } else if !dead.is_empty() {
                        // (d') a soft requirement that can never be installed is rejected and rolled back; what its
                        // attempt leaves behind (learnt clauses, discovered exclusions, fetched metadata) are facts about
                        // the problem, so it cannot keep the compatible ones out
                        let live: Vec<u32> = p.soft.iter().copied().filter(|x| !dead.contains(x)).collect();
                        if !live.is_empty() {
                            let fc_live = first_choice(&sc.world, &hard, &live);
                            if fc_live.consistent_exclusive {
                                applied_d = true;
                                let missing: Vec<u32> = live.iter().copied().filter(|x| !set.contains(x)).collect();
                                if !missing.is_empty() {
                                    v.violate("compatible-soft-skipped-after-rejected", format!("soft solvables {missing:?} are compatible (first-choice closure {:?} of the hard problem and of the installable soft requirements is valid; {dead:?} can never be installed) but were not installed: {s:?}", fc_live.set));
                                }
                            }
                        }
                    }
                }
                // (e) independence: a soft solvable whose whole reachable universe (over every candidate of every
                // version set it can reach) shares no package with the hard problem or with any other soft
                // requirement, and whose own first-choice closure is a valid selection, cannot be affected by
                // anything else and must be installed
                let reach_names = |roots: &[Req], cons: &[u32], start: Option<u32>| -> BTreeSet<u32> {
                    let w = &sc.world;
                    let mut names: BTreeSet<u32> = BTreeSet::new();
                    let mut seen: BTreeSet<u32> = BTreeSet::new();
                    let mut queue: Vec<u32> = Vec::new();
                    let mut visit_deps = |reqs: &[Req], cons: &[u32], names: &mut BTreeSet<u32>, queue: &mut Vec<u32>, seen: &mut BTreeSet<u32>| {
                        for n in w.names_mentioned(reqs, cons) {
                            names.insert(n);
                            for c in w.cands(n) {
                                if seen.insert(*c) {
                                    queue.push(*c);
                                }
                            }
                        }
                    };
                    visit_deps(roots, cons, &mut names, &mut queue, &mut seen);
                    if let Some(x) = start {
                        names.insert(w.solvable_name(x));
                        for c in w.cands(w.solvable_name(x)) {
                            if seen.insert(*c) {
                                queue.push(*c);
                            }
                        }
                        if seen.insert(x) {
                            queue.push(x);
                        }
                    }
                    while let Some(c) = queue.pop() {
                        if let Some((r, k)) = w.known_deps(c) {
                            visit_deps(r, k, &mut names, &mut queue, &mut seen);
                        }
                    }
                    names
                };
                let hard_names = reach_names(&hard.requirements, &hard.constraints, None);
                let soft_names: Vec<BTreeSet<u32>> = p.soft.iter().map(|x| reach_names(&[], &[], Some(*x))).collect();
                let mut applied_e = false;
                for (ix, x) in p.soft.iter().enumerate() {
                    if set.contains(x) {
                        continue;
                    }
                    let mine = &soft_names[ix];
                    let independent = mine.is_disjoint(&hard_names)
                        && soft_names.iter().enumerate().all(|(j, o)| j == ix || o.is_disjoint(mine));
                    if !independent {
                        continue;
                    }
                    let alone = ProblemSpec {
                        requirements: vec![],
                        constraints: vec![],
                        soft: vec![],
                    };
                    let fc = first_choice(&sc.world, &alone, &[*x]);
                    if fc.consistent_exclusive {
                        applied_e = true;
                        v.violate("independent-soft-skipped", format!("soft solvable {x} shares no package with the hard problem or any other soft requirement and its first-choice closure {:?} is valid, but it was not installed: {s:?}", fc.set));
                    }
                }
                v.nontrivial = (accepted > 0 && rejected > 0) || applied_d || applied_e;
            }
            _ => {
                v.evaluated = true;
            }
        }
        v
    }
}

pub fn _unused(_: &dyn Fn() -> u64) -> u64 {
    mix(&[0])
}

pub fn _unused2() -> Policy {
    Policy::Fifo
}
