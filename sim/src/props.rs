//! Property framework: a property is (generator of scenarios from a seed, judge of one scenario).
//! `judge` is a pure function of (scenario, tree): it executes the scenario under the simulator and
//! evaluates the property's oracle over the outcome and the recorded history.

use crate::core::{Ev, Kind, Token};
use crate::reference::{self, Leniency, Sat};
use crate::run::{execute, Outcome, RunRecord, Scenario};
use crate::world::{Hint, World};
use std::collections::{BTreeMap, BTreeSet};

#[derive(Clone, Copy, Debug, PartialEq, Eq)]
pub enum Tier {
    Quick,
    Thorough,
}

#[derive(Default, Clone, Debug)]
pub struct Verdict {
    /// (violation class — stable under minimisation, human detail)
    pub violation: Option<(String, String)>,
    /// the oracle was actually evaluated on this run
    pub evaluated: bool,
    /// satisfies the property's non-triviality rule
    pub nontrivial: bool,
    pub skipped_pre: bool,
    pub aborted_other: bool,
    pub inconclusive: bool,
    /// distinctness key (world shape, completion trace, fault plan)
    pub key: u64,
    pub faults: BTreeMap<&'static str, u64>,
    pub probes: BTreeMap<&'static str, u64>,
    pub quiescent_points: u64,
    pub max_in_flight: usize,
    pub virtual_time: u64,
    pub max_polls: u64,
    pub trace_hash: u64,
    pub summary: String,
}

impl Verdict {
    pub fn violate(&mut self, class: impl Into<String>, detail: impl Into<String>) {
        if self.violation.is_none() {
            self.violation = Some((class.into(), detail.into()));
        }
    }
}

pub trait Property: Sync {
    fn id(&self) -> &'static str;
    fn level(&self) -> &'static str {
        "exploration"
    }
    /// how many seeds a tier runs
    fn runs(&self, tier: Tier) -> u64;
    fn gen(&self, seed: u64, tier: Tier) -> Vec<Scenario>;
    fn judge(&self, sc: &Scenario) -> Verdict;
    fn rule(&self) -> &'static str;
    fn assumptions(&self) -> Vec<&'static str> {
        vec![]
    }
}

// ---------------------------------------------------------------------------------------------
// helpers shared by the oracles

pub fn trace_hash(rec: &RunRecord) -> u64 {
    let mut s = String::new();
    for e in &rec.log {
        match e {
            Ev::Complete { rid } => {
                s.push_str(&format!("c{rid};"));
            }
            Ev::Quiescent { .. } => s.push('|'),
            Ev::Spurious => s.push('~'),
            _ => {}
        }
    }
    crate::prng::fnv(&s)
}

/// Fill the bookkeeping common to all verdicts.
pub fn base_verdict(sc: &Scenario, rec: &RunRecord) -> Verdict {
    let mut v = Verdict::default();
    let th = trace_hash(rec);
    v.trace_hash = th;
    let plan = format!(
        "{:?}{:?}{}{:?}",
        sc.solves.iter().map(|s| &s.cancel).collect::<Vec<_>>(),
        sc.activity,
        sc.reentrant_sort,
        sc.solves.iter().map(|s| &s.problem).collect::<Vec<_>>()
    );
    v.key = crate::prng::mix(&[sc.world.shape_hash(), th, crate::prng::fnv(&plan)]);
    v.quiescent_points = rec.stats.quiescent_points;
    v.max_in_flight = rec.stats.max_in_flight;
    v.virtual_time = rec.stats.virtual_time;
    v.max_polls = rec.stats.max_polls_in_a_solve;
    v.faults = fault_counts(sc, rec);
    // reach probes: which corners of the input space this run touched
    {
        let w = &sc.world;
        let mut bump = |k: &'static str| *v.probes.entry(k).or_insert(0) += 1;
        let n = w.n_solvables();
        if n > 200 {
            bump("world_over_200_solvables");
        }
        if w.packages.values().any(|p| p.candidates.len() > 30) {
            bump("package_with_over_30_candidates");
        } else if w.packages.values().any(|p| p.candidates.len() > 20) {
            bump("package_with_21_to_30_candidates");
        }
        if w.unions.values().any(|u| u.len() > 30) {
            bump("union_with_over_30_members");
        }
        if sc.solves.iter().any(|s| s.problem.soft.len() > 30) {
            bump("soft_list_over_30");
        }
        if sc.solves.iter().any(|s| s.problem.requirements.len() > 30) {
            bump("root_with_over_30_requirements");
        }
        if w.filter_reversed {
            bump("filter_candidates_reverses_order");
        }
        if w.packages.values().any(|p| p.hint == Hint::Some(vec![])) {
            bump("hint_spelled_as_empty_list");
        }
        if w.solvables.keys().next_back().map(|m| *m >= 127).unwrap_or(false) || w.packages.keys().next_back().map(|m| *m >= 127).unwrap_or(false) {
            bump("ids_reach_chunk_boundary_128");
        }
        if sc.solves.len() > 1 {
            bump("history_of_several_solves");
        }
        if sc.rewrap_before_render {
            bump("with_runtime_before_render");
        }
        if sc.cancel_during_render {
            bump("cancel_during_render");
        }
    }
    for (i, o) in rec.outcomes.iter().enumerate() {
        if let crate::run::Outcome::Ok(sol) = o {
            for x in &sc.solves[i % sc.solves.len()].problem.soft {
                if sol.contains(x) {
                    *v.probes.entry("soft_accepted").or_insert(0) += 1;
                } else {
                    *v.probes.entry("soft_rejected").or_insert(0) += 1;
                }
            }
            for r in &sc.solves[i % sc.solves.len()].problem.requirements {
                if let crate::world::Req::Union(_) = r {
                    let c = sc.world.req_cands(r);
                    if let Some(f) = c.first() {
                        if !sol.contains(f) {
                            *v.probes.entry("union_not_first_member").or_insert(0) += 1;
                        }
                    }
                }
            }
        }
    }
    v.summary = rec
        .outcomes
        .iter()
        .map(|o| o.short())
        .collect::<Vec<_>>()
        .join(" ; ");
    v
}

/// Count fault kinds that actually fired in this run.
pub fn fault_counts(sc: &Scenario, rec: &RunRecord) -> BTreeMap<&'static str, u64> {
    let w = &sc.world;
    let mut m: BTreeMap<&'static str, u64> = BTreeMap::new();
    let mut starts: BTreeMap<u64, (Kind, u32)> = BTreeMap::new();
    let mut add = |k: &'static str, n: u64| {
        if n > 0 {
            *m.entry(k).or_insert(0) += n;
        }
    };
    if sc.trace_subscriber {
        add("all_levels_tracing_subscriber", 1);
    }
    if rec.stats.cancel_fired > 0 {
        add(
            match sc.token_repr {
                1 => "cancel_value_is_string",
                2 => "cancel_value_is_static_str",
                3 => "cancel_value_is_u64",
                4 => "cancel_value_is_tuple",
                _ => "cancel_value_is_struct",
            },
            1,
        );
    }
    if sc.immediate_p > 0 && sc.runtime == crate::run::RuntimeKind::Sim {
        // requests of a kind that suspends which were nevertheless answered at once
        let completed: std::collections::BTreeSet<u64> = rec.log.iter().filter_map(|e| if let Ev::Complete { rid } = e { Some(*rid) } else { None }).collect();
        let mut kinds: BTreeMap<u64, Kind> = BTreeMap::new();
        let mut n = 0u64;
        for e in &rec.log {
            match e {
                Ev::Start { rid, kind, .. } => {
                    kinds.insert(*rid, *kind);
                }
                Ev::Deliver { rid } => {
                    if let Some(k) = kinds.get(rid) {
                        if sc.yield_mask & k.bit() != 0 && !completed.contains(rid) {
                            n += 1;
                        }
                    }
                }
                _ => {}
            }
        }
        add("answered_at_once_by_a_suspending_provider", n);
    }
    let mut last_registered: Option<u64> = None;
    let mut reorder = 0u64;
    for e in &rec.log {
        match e {
            Ev::Start { rid, kind, arg, in_sort, .. } => {
                starts.insert(*rid, (*kind, *arg));
                if *in_sort {
                    add("reentrant_query", 1);
                }
            }
            Ev::Complete { rid } => {
                if let Some(prev) = last_registered {
                    if *rid < prev {
                        reorder += 1;
                    }
                }
                last_registered = Some(*rid);
            }
            Ev::Deliver { rid } => {
                if let Some((kind, arg)) = starts.get(rid) {
                    match kind {
                        Kind::Deps => {
                            if w.deps_unknown(*arg) {
                                add("unknown_deps", 1);
                            }
                        }
                        Kind::Cand => match w.packages.get(arg) {
                            Some(p) if p.missing => add("missing_package", 1),
                            Some(p) => {
                                if !p.excluded.is_empty() {
                                    add("excluded", 1);
                                }
                                if p.locked.is_some() {
                                    add("locked", 1);
                                }
                                if p.favored.is_some() {
                                    add("favored", 1);
                                }
                                if p.hint != Hint::None {
                                    add("hints", 1);
                                }
                            }
                            None => add("missing_package", 1),
                        },
                        _ => {}
                    }
                }
            }
            _ => {}
        }
    }
    add("reorder", reorder);
    add("batch", rec.stats.batches);
    add("spurious_wake", rec.stats.spurious);
    add("dropped_in_flight", rec.stats.dropped_in_flight);
    add("cancel", rec.stats.cancel_fired);
    if sc.activity.is_some() {
        add("activity_params", 1);
    }
    add("hash_salt", 1 + sc.extra_salts.len() as u64);
    if matches!(sc.policy, crate::core::Policy::Starve(_) | crate::core::Policy::StarveOldest)
        && rec.stats.completions > 0
    {
        add("starve", 1);
    }
    if matches!(sc.policy, crate::core::Policy::VirtualTime) && rec.stats.completions > 0 {
        add("delay", 1);
    }
    m
}

/// Independent verdict of the hard problem; None = reference gave up.
pub fn ref_verdict(w: &World, sc_problem: &crate::world::ProblemSpec) -> Option<bool> {
    let hard = crate::world::ProblemSpec {
        requirements: sc_problem.requirements.clone(),
        constraints: sc_problem.constraints.clone(),
        soft: vec![],
    };
    match reference::ref_solve(w, &hard, &[], Leniency::Strict) {
        Sat::Sat(_) => Some(true),
        Sat::Unsat => Some(false),
        Sat::Unknown => None,
    }
}

pub fn crash_class(o: &Outcome) -> Option<(String, String)> {
    match o {
        Outcome::Panic(p) => Some((
            format!("panic:{}", p.site()),
            format!("panic at {}:{}: {}", p.file, p.line, p.msg),
        )),
        Outcome::Deadlock => Some((
            "hang:deadlock".into(),
            "root future pending with no request in flight".into(),
        )),
        Outcome::StepBudget => Some(("hang:steps".into(), "scheduler step budget exceeded".into())),
        Outcome::Cancelled(Some(Token::Budget)) => Some((
            "hang:polls".into(),
            "did not terminate within the poll budget".into(),
        )),
        Outcome::Unsolvable(Some(r)) => {
            if let Some(p) = &r.render_panic {
                Some((
                    format!("render-panic:{}", p.site()),
                    format!("panic while rendering at {}:{}: {}", p.file, p.line, p.msg),
                ))
            } else {
                r.render_failure
                    .as_ref()
                    .map(|f| ("render-unbounded".to_string(), f.clone()))
            }
        }
        _ => None,
    }
}

pub fn run(sc: &Scenario) -> RunRecord {
    execute(sc)
}

/// Provider calls of a given kind that were started, in order: (log index, rid, arg, in_sort)
pub fn starts_of(rec: &RunRecord, kind: Kind) -> Vec<(usize, u64, u32, bool)> {
    rec.log
        .iter()
        .enumerate()
        .filter_map(|(i, e)| match e {
            Ev::Start {
                rid,
                kind: k,
                arg,
                in_sort,
                ..
            } if *k == kind => Some((i, *rid, *arg, *in_sort)),
            _ => None,
        })
        .collect()
}

pub fn delivered_rids(rec: &RunRecord) -> BTreeSet<u64> {
    rec.log
        .iter()
        .filter_map(|e| match e {
            Ev::Deliver { rid } => Some(*rid),
            _ => None,
        })
        .collect()
}

/// "at most once" judged on delivered requests: a second Start for the same argument although an
/// earlier request for it was already delivered *before* that Start, or two requests overlapping in
/// flight. Returns the offending argument.
pub fn duplicate_request(rec: &RunRecord, kind: Kind, ignore_in_sort: bool) -> Option<u32> {
    duplicate_request_ex(rec, kind, ignore_in_sort, false)
}

/// `caller_drops`: the harness itself abandons pending requests (C20 clients), so a dropped request may always be
/// re-issued.
pub fn duplicate_request_ex(rec: &RunRecord, kind: Kind, ignore_in_sort: bool, caller_drops: bool) -> Option<u32> {
    // state per arg: 0 = none, 1 = in flight, 2 = delivered (or abandoned by the solver itself)
    let mut state: BTreeMap<u32, u8> = BTreeMap::new();
    let mut rid_arg: BTreeMap<u64, u32> = BTreeMap::new();
    // A request may legitimately be re-issued only if it was dropped in flight because the solve was
    // cancelled (every pending request is dropped then). A solver that drops its own request and asks again
    // has asked twice.
    let mut cancelled = false;
    for e in &rec.log {
        match e {
            Ev::SolveBegin(_) => cancelled = false,
            Ev::CancelPoll { fired: true, .. } => cancelled = true,
            Ev::Start {
                rid,
                kind: k,
                arg,
                in_sort,
                ..
            } if *k == kind => {
                if ignore_in_sort && *in_sort {
                    continue;
                }
                let st = state.entry(*arg).or_insert(0);
                if *st != 0 {
                    return Some(*arg);
                }
                *st = 1;
                rid_arg.insert(*rid, *arg);
            }
            Ev::Deliver { rid } => {
                if let Some(a) = rid_arg.get(rid) {
                    state.insert(*a, 2);
                }
            }
            Ev::Dropped { rid } => {
                if let Some(a) = rid_arg.get(rid) {
                    if state.get(a) == Some(&1) {
                        state.insert(*a, if cancelled || caller_drops { 0 } else { 2 });
                    }
                }
            }
            _ => {}
        }
    }
    None
}


/// Packages whose candidates answer was delivered to the solver.
pub fn cand_received(rec: &RunRecord) -> BTreeSet<u32> {
    let mut rid: BTreeMap<u64, u32> = BTreeMap::new();
    let mut out = BTreeSet::new();
    for e in &rec.log {
        match e {
            Ev::Start { rid: r, kind: Kind::Cand, arg, .. } => {
                rid.insert(*r, *arg);
            }
            Ev::Deliver { rid: r } => {
                if let Some(a) = rid.get(r) {
                    out.insert(*a);
                }
            }
            _ => {}
        }
    }
    out
}

/// "Prompt": the poll that answers `Some` is made from inside a poll of the solve future, and the error travels up
/// through `?` in that same poll - so between the first fired poll of a solve and the end of that solve the root
/// future is never left pending (no quiescent point). A solver that keeps waiting for requests that are in flight
/// (which may never answer - that is when users cancel) shows one. Returns (solve index, poll index).
pub fn waits_after_cancel(rec: &RunRecord) -> Option<(usize, u64)> {
    let mut cur = 0usize;
    let mut fired: Option<u64> = None;
    for e in &rec.log {
        match e {
            Ev::SolveBegin(i) => {
                cur = *i;
                fired = None;
            }
            Ev::SolveEnd(_) => fired = None,
            Ev::CancelPoll { n, fired: true } if fired.is_none() => fired = Some(*n),
            Ev::Quiescent { .. } => {
                if let Some(n) = fired {
                    return Some((cur, n));
                }
            }
            _ => {}
        }
    }
    None
}
