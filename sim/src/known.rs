//! Known-findings protocol. `/verif/known_findings.json` is committed and never written at run time.
//! An entry suppresses a violation only if property, violation class AND the named trigger predicate
//! (evaluated on the scenario) all match. `fixed` entries are documentation and suppress nothing.

use crate::run::Scenario;
use crate::world::{Deps, Hint, Req};
use serde::Deserialize;

#[derive(Clone, Debug, Deserialize)]
pub struct KnownFinding {
    #[serde(default)]
    pub fixed: bool,
    pub property: String,
    #[serde(default)]
    pub class_prefix: String,
    #[serde(default)]
    pub trigger: String,
    pub what: String,
    #[serde(default)]
    pub commit: String,
}

pub fn load(path: &str) -> Vec<KnownFinding> {
    match std::fs::read_to_string(path) {
        Ok(s) => serde_json::from_str(&s).unwrap_or_else(|e| {
            eprintln!("harness error: cannot parse {path}: {e}");
            std::process::exit(2);
        }),
        Err(_) => vec![],
    }
}

/// Named trigger predicates. Each is a *necessary* condition of one specific defect, evaluated on the
/// explicit scenario (world + problems), never on free text.
pub fn trigger_holds(name: &str, sc: &Scenario) -> bool {
    let w = &sc.world;
    match name {
        // a solvable whose constrains entry names its own package with a version set that does not match itself
        "self_excluding_constrains" => w.solvables.iter().any(|(s, sv)| match &sv.deps {
            Deps::Known { constrains, .. } => constrains
                .iter()
                .any(|vs| w.vs_name(*vs) == sv.name && !w.vs_matches(*vs, *s)),
            _ => false,
        }),
        // a soft requirement names a solvable that its package excludes
        "soft_on_excluded_solvable" => sc
            .solves
            .iter()
            .any(|s| s.problem.soft.iter().any(|x| w.is_excluded(*x))),
        // some package gives availability hints
        "hints_present" => w.packages.values().any(|p| p.hint != Hint::None),
        // a union whose members include two version sets of the same package
        "same_package_union" => w.unions.values().any(|m| {
            let mut names: Vec<u32> = m.iter().map(|v| w.vs_name(*v)).collect();
            names.sort();
            names.windows(2).any(|x| x[0] == x[1])
        }),
        // a solve with a cancellation plan is followed by another solve on the same solver
        "cancelled_solve_followed_by_another" => {
            let n = sc.solves.len();
            sc.solves.iter().enumerate().any(|(i, s)| s.cancel.is_some() && i + 1 < n)
        }
        "soft_requirements_present" => sc.solves.iter().any(|s| !s.problem.soft.is_empty()),
        "duplicate_root_requirement" => sc.solves.iter().any(|s| {
            let r: &Vec<Req> = &s.problem.requirements;
            (0..r.len()).any(|i| r[i + 1..].contains(&r[i]))
        }),
        _ => false,
    }
}

pub fn matches<'a>(
    known: &'a [KnownFinding],
    property: &str,
    class: &str,
    sc: &Scenario,
) -> Option<&'a KnownFinding> {
    known.iter().find(|k| {
        !k.fixed
            && k.property == property
            && class.starts_with(&k.class_prefix)
            && trigger_holds(&k.trigger, sc)
    })
}
