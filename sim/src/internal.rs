//! Invariants over the solver's recorded internal state (clause database, learnt clauses, trail), read
//! through the guarded `verif-hooks` accessor. Each invariant implies (part of) a listed property, so a
//! violation is reported under that property with an `internal:` class.

use crate::reference::{dpll, Cnf, Sat, REF_BUDGET};
use crate::world::{Deps, ProblemSpec, Req, World};
use resolvo::verif_hooks::{Dump, DumpKind, DumpLit, DumpVar};
use std::collections::{BTreeMap, BTreeSet};

fn req_of(r: resolvo::Requirement) -> Req {
    crate::provider::from_requirement(r)
}

fn reqs_and_cons(w: &World, p: &ProblemSpec, v: &DumpVar) -> Option<(Vec<Req>, Vec<u32>)> {
    match v {
        DumpVar::Root => Some((p.requirements.clone(), p.constraints.clone())),
        DumpVar::Solvable(s) => w.known_deps(s.0).map(|(r, c)| (r.clone(), c.clone())),
        DumpVar::Helper(..) => None,
    }
}

fn lit_set(l: &[DumpLit]) -> BTreeSet<DumpLit> {
    l.iter().copied().collect()
}

/// I1: every non-learnt clause states a true fact about the provider's data, literal for literal.
pub fn clause_truth(w: &World, p: &ProblemSpec, d: &Dump) -> Option<String> {
    for (i, c) in d.clauses.iter().enumerate() {
        let lits = lit_set(&c.literals);
        let bad = |why: String| Some(format!("clause #{i} {:?} {:?}: {why}", c.kind, c.literals));
        match &c.kind {
            DumpKind::InstallRoot => {
                if lits != [(DumpVar::Root, true)].into_iter().collect() {
                    return bad("not (root)".into());
                }
            }
            DumpKind::Requires(parent, r) => {
                let r = req_of(*r);
                let Some((reqs, _)) = reqs_and_cons(w, p, parent) else {
                    return bad("parent has no known requirements".into());
                };
                if !reqs.contains(&r) {
                    return bad("the parent does not have this requirement".into());
                }
                let mut want: BTreeSet<DumpLit> = w
                    .req_cand_set(&r)
                    .into_iter()
                    .map(|s| (DumpVar::Solvable(resolvo::SolvableId(s)), true))
                    .collect();
                want.insert((*parent, false));
                if lits != want {
                    return bad(format!("literals differ from (not parent or candidates {:?})", w.req_cand_set(&r)));
                }
            }
            DumpKind::Constrains(parent, f, vs) => {
                let Some((_, cons)) = reqs_and_cons(w, p, parent) else {
                    return bad("parent has no known constrains".into());
                };
                let DumpVar::Solvable(fs) = f else {
                    return bad("forbidden is not a solvable".into());
                };
                if !cons.contains(&vs.0) || !w.non_matching(vs.0).contains(&fs.0) {
                    return bad("not a non-matching candidate of a constrains entry of the parent".into());
                }
                let want: BTreeSet<DumpLit> = [(*parent, false), (*f, false)].into_iter().collect();
                if lits != want {
                    return bad("literals differ from (not parent or not forbidden)".into());
                }
            }
            DumpKind::Lock(l, o) => {
                let (DumpVar::Solvable(ls), DumpVar::Solvable(os)) = (l, o) else {
                    return bad("lock over non-solvables".into());
                };
                let name = w.solvable_name(os.0);
                let pk = &w.packages[&name];
                if pk.missing || pk.locked != Some(ls.0) || ls.0 == os.0 || !pk.candidates.contains(&os.0) {
                    return bad("the solvable is not locked out".into());
                }
                let want: BTreeSet<DumpLit> = [(DumpVar::Root, false), (*o, false)].into_iter().collect();
                if lits != want {
                    return bad("literals differ from (not root or not other)".into());
                }
            }
            DumpKind::Excluded(s, reason) => {
                let DumpVar::Solvable(ss) = s else {
                    return bad("excluded non-solvable".into());
                };
                let name = w.solvable_name(ss.0);
                let by_pkg = !w.packages[&name].missing
                    && w.packages[&name].excluded.iter().any(|(x, r)| *x == ss.0 && *r == reason.0);
                let by_unknown = matches!(w.solvables[&ss.0].deps, Deps::Unknown(r) if r == reason.0);
                if !by_pkg && !by_unknown {
                    return bad("the solvable is neither excluded nor has Unknown dependencies for this reason".into());
                }
                if lits != [(*s, false)].into_iter().collect() {
                    return bad("literals differ from (not solvable)".into());
                }
            }
            DumpKind::ForbidMultiple(s, name) => {
                let DumpVar::Solvable(ss) = s else {
                    return bad("forbid over a non-solvable".into());
                };
                if w.solvable_name(ss.0) != name.0 {
                    return bad("candidate registered under another package".into());
                }
                let ok = c.literals.len() == 2
                    && c.literals.contains(&(*s, false))
                    && c.literals.iter().any(|(v, _)| matches!(v, DumpVar::Helper(_, n) if *n == *name));
                if !ok {
                    return bad("not of the form (not candidate or +-helper of its package)".into());
                }
            }
            DumpKind::Learnt(_) => {}
        }
    }
    None
}

/// I2: the helper patterns of any two registered candidates of one package contradict each other, and every
/// candidate offered by some requires clause of a package with >= 2 offered candidates is registered.
pub fn at_most_one_encoding(w: &World, d: &Dump) -> Option<String> {
    let mut patterns: BTreeMap<u32, BTreeMap<u32, BTreeMap<u32, bool>>> = BTreeMap::new(); // name -> solvable -> helper -> polarity
    for c in &d.clauses {
        if let DumpKind::ForbidMultiple(DumpVar::Solvable(s), name) = &c.kind {
            for (v, pos) in &c.literals {
                if let DumpVar::Helper(h, _) = v {
                    let e = patterns.entry(name.0).or_default().entry(s.0).or_default();
                    if let Some(prev) = e.insert(*h, *pos) {
                        if prev != *pos {
                            return Some(format!("candidate {} of package {} is forced to both values of helper {h}", s.0, name.0));
                        }
                    }
                }
            }
        }
    }
    // offered candidates per package
    let mut offered: BTreeMap<u32, BTreeSet<u32>> = BTreeMap::new();
    for c in &d.clauses {
        if let DumpKind::Requires(..) = &c.kind {
            for (v, pos) in &c.literals {
                if let (DumpVar::Solvable(s), true) = (v, pos) {
                    offered.entry(w.solvable_name(s.0)).or_default().insert(s.0);
                }
            }
        }
    }
    for (name, cands) in &offered {
        if cands.len() < 2 {
            continue;
        }
        let pats = patterns.get(name);
        let cs: Vec<u32> = cands.iter().copied().collect();
        for i in 0..cs.len() {
            for j in (i + 1)..cs.len() {
                let (a, b) = (cs[i], cs[j]);
                let pa = pats.and_then(|p| p.get(&a));
                let pb = pats.and_then(|p| p.get(&b));
                let contradict = match (pa, pb) {
                    (Some(pa), Some(pb)) => pa.iter().any(|(h, v)| pb.get(h).map(|x| x != v).unwrap_or(false)),
                    _ => false,
                };
                if !contradict {
                    return Some(format!("candidates {a} and {b} of package {name} are both offered by requirements but nothing in the clause database forbids selecting them together"));
                }
            }
        }
    }
    None
}

struct Numbering {
    map: BTreeMap<DumpVar, i32>,
}

impl Numbering {
    fn lit(&mut self, l: &DumpLit) -> i32 {
        let n = self.map.len() as i32 + 1;
        let v = *self.map.entry(l.0).or_insert(n);
        if l.1 {
            v
        } else {
            -v
        }
    }
}

fn implied(premises: &[&Vec<DumpLit>], conclusion: &[DumpLit]) -> Option<bool> {
    let mut num = Numbering { map: BTreeMap::new() };
    let mut cnf = Cnf::default();
    for c in premises {
        cnf.clauses.push(c.iter().map(|l| num.lit(l)).collect());
    }
    for l in conclusion {
        let x = num.lit(l);
        cnf.clauses.push(vec![-x]);
    }
    cnf.nvars = num.map.len();
    match dpll(&cnf, REF_BUDGET) {
        Sat::Unsat => Some(true),
        Sat::Sat(_) => Some(false),
        Sat::Unknown => None,
    }
}

/// I3a: every learnt clause is implied by the non-learnt clauses of the database (which I1 shows to be facts).
/// Only the clauses connected (through shared variables) to the learnt clause can matter, so the implication is
/// decided on that connected part (a chronological DPLL over unrelated components would blow up).
pub fn learnt_sound(d: &Dump) -> Option<String> {
    let facts: Vec<&Vec<DumpLit>> = d
        .clauses
        .iter()
        .filter(|c| !matches!(c.kind, DumpKind::Learnt(_)))
        .map(|c| &c.literals)
        .collect();
    let mut by_var: BTreeMap<DumpVar, Vec<usize>> = BTreeMap::new();
    for (k, c) in facts.iter().enumerate() {
        for (v, _) in c.iter() {
            // the root is true everywhere and would connect everything; it is handled as a unit fact instead
            if *v != DumpVar::Root {
                by_var.entry(*v).or_default().push(k);
            }
        }
    }
    let root_unit: Vec<DumpLit> = vec![(DumpVar::Root, true)];
    // on very long runs a seeded-by-position sample of the learnt clauses is certified (first 24, then every 8th)
    let mut n = 0usize;
    for (i, c) in d.clauses.iter().enumerate() {
        if let DumpKind::Learnt(_) = &c.kind {
            n += 1;
            if n > 24 && n % 8 != 0 {
                continue;
            }
            let mut seen_v: BTreeSet<DumpVar> = BTreeSet::new();
            let mut seen_c: BTreeSet<usize> = BTreeSet::new();
            let mut queue: Vec<DumpVar> = Vec::new();
            for (v, _) in &c.literals {
                if *v != DumpVar::Root && seen_v.insert(*v) {
                    queue.push(*v);
                }
            }
            while let Some(v) = queue.pop() {
                if let Some(cs) = by_var.get(&v) {
                    for k in cs {
                        if seen_c.insert(*k) {
                            for (u, _) in facts[*k].iter() {
                                if *u != DumpVar::Root && seen_v.insert(*u) {
                                    queue.push(*u);
                                }
                            }
                        }
                    }
                }
            }
            let mut prem: Vec<&Vec<DumpLit>> = seen_c.iter().map(|k| facts[*k]).collect();
            prem.push(&root_unit);
            if implied(&prem, &c.literals) == Some(false) {
                return Some(format!("learnt clause #{i} {:?} is not implied by the problem clauses", c.literals));
            }
        }
    }
    None
}

/// I3b: every learnt clause is implied by the antecedents recorded for it (what the conflict report is built from).
pub fn learnt_why_complete(d: &Dump) -> Option<String> {
    for (i, c) in d.clauses.iter().enumerate() {
        if let DumpKind::Learnt(why) = &c.kind {
            let mut prem: Vec<&Vec<DumpLit>> = Vec::new();
            for &k in why {
                match d.clauses.get(k) {
                    Some(a) if k < i => prem.push(&a.literals),
                    _ => return Some(format!("learnt clause #{i} lists antecedent #{k} which does not precede it")),
                }
            }
            if implied(&prem, &c.literals) == Some(false) {
                return Some(format!("learnt clause #{i} {:?} does not follow from its recorded antecedents {why:?}", c.literals));
            }
        }
    }
    None
}

/// I4 + I5 for an `Ok` result: the clauses of everything installed are present, and the final assignment
/// satisfies the whole database.
pub fn solution_encoded(w: &World, p: &ProblemSpec, sol: &[u32], cand_received: &BTreeSet<u32>, d: &Dump) -> Option<String> {
    let set: BTreeSet<u32> = sol.iter().copied().collect();
    let mut requires: BTreeSet<(DumpVar, Req)> = BTreeSet::new();
    let mut constrains: BTreeSet<(DumpVar, u32, u32)> = BTreeSet::new();
    let mut locks: BTreeSet<u32> = BTreeSet::new();
    let mut excluded: BTreeSet<u32> = BTreeSet::new();
    for c in &d.clauses {
        match &c.kind {
            DumpKind::Requires(pv, r) => {
                requires.insert((*pv, req_of(*r)));
            }
            DumpKind::Constrains(pv, DumpVar::Solvable(f), vs) => {
                constrains.insert((*pv, f.0, vs.0));
            }
            DumpKind::Lock(_, DumpVar::Solvable(o)) => {
                locks.insert(o.0);
            }
            DumpKind::Excluded(DumpVar::Solvable(s), _) => {
                excluded.insert(s.0);
            }
            _ => {}
        }
    }
    let mut parents: Vec<DumpVar> = vec![DumpVar::Root];
    parents.extend(set.iter().map(|s| DumpVar::Solvable(resolvo::SolvableId(*s))));
    for pv in &parents {
        let Some((reqs, cons)) = reqs_and_cons(w, p, pv) else { continue };
        for r in &reqs {
            if !requires.contains(&(*pv, r.clone())) {
                return Some(format!("{pv:?} is installed but no clause encodes its requirement {r:?}"));
            }
        }
        for vs in &cons {
            for f in w.non_matching(*vs) {
                if !constrains.contains(&(*pv, f, *vs)) {
                    return Some(format!("{pv:?} is installed but no clause forbids {f}, which its constrains entry vs{vs} excludes"));
                }
            }
        }
    }
    for n in cand_received {
        if let Some(pk) = w.packages.get(n) {
            if pk.missing {
                continue;
            }
            if let Some(l) = pk.locked {
                for c in &pk.candidates {
                    if *c != l && !locks.contains(c) {
                        return Some(format!("package {n} is locked to {l} but candidate {c} has no lock clause"));
                    }
                }
            }
            for (x, _) in &pk.excluded {
                if !excluded.contains(x) {
                    return Some(format!("candidate {x} of package {n} is excluded by the provider but has no exclusion clause"));
                }
            }
        }
    }
    // I5: final assignment (unassigned solvables are not installed; unassigned helpers are free)
    let mut val: BTreeMap<DumpVar, bool> = BTreeMap::new();
    for t in &d.trail {
        val.insert(t.variable, t.value);
    }
    for (i, c) in d.clauses.iter().enumerate() {
        // documented exemption: a solvable named directly as a soft requirement may be installed although its
        // package's lock / exclusion clause (added later, when somebody else asks for the package) says otherwise
        match &c.kind {
            DumpKind::Excluded(DumpVar::Solvable(x), _) | DumpKind::Lock(_, DumpVar::Solvable(x)) if p.soft.contains(&x.0) => continue,
            _ => {}
        }
        let sat = c.literals.iter().any(|(v, pos)| match val.get(v) {
            Some(x) => x == pos,
            None => match v {
                DumpVar::Helper(..) => true,
                _ => !*pos,
            },
        });
        if !sat {
            return Some(format!("the final assignment falsifies clause #{i} {:?} {:?}", c.kind, c.literals));
        }
    }
    None
}


/// I6: every propagated assignment on the final trail is justified: its reason clause contains the literal it
/// makes true and all other literals of that clause were falsified earlier on the trail. (Assignments whose
/// reason is a requires clause and whose value is true may be decisions and are skipped, as are the root and
/// the soft requirements themselves.)
pub fn trail_justified(d: &Dump) -> Option<String> {
    let mut pos: BTreeMap<DumpVar, (usize, bool)> = BTreeMap::new();
    for (i, t) in d.trail.iter().enumerate() {
        pos.insert(t.variable, (i, t.value));
    }
    for (i, t) in d.trail.iter().enumerate() {
        let Some(c) = d.clauses.get(t.derived_from) else {
            return Some(format!("trail entry {i} refers to clause #{} which does not exist", t.derived_from));
        };
        match (&c.kind, t.value) {
            (DumpKind::InstallRoot, _) => continue,
            (DumpKind::Requires(..), true) => continue,
            _ => {}
        }
        if !c.literals.contains(&(t.variable, t.value)) {
            return Some(format!("trail entry {i} ({:?} = {}) is attributed to clause #{} {:?} which does not contain that literal", t.variable, t.value, t.derived_from, c.literals));
        }
        for (v, p) in &c.literals {
            if *v == t.variable {
                continue;
            }
            match pos.get(v) {
                Some((j, val)) if *j < i && *val != *p => {}
                _ => {
                    return Some(format!(
                        "trail entry {i} ({:?} = {}) is attributed to clause #{} {:?} {:?}, but its literal on {:?} was not false before that assignment",
                        t.variable, t.value, t.derived_from, c.kind, c.literals, v
                    ));
                }
            }
        }
    }
    None
}
