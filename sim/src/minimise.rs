//! Delta-debugging minimiser over the explicit scenario: a step is kept only while the same
//! violation class persists.

use crate::core::Policy;
use crate::props::Property;
use crate::run::{execute, RuntimeKind, Scenario};
use crate::world::{Deps, Hint, Req, World};
use std::collections::BTreeSet;
use std::time::{Duration, Instant};

fn class_of(prop: &dyn Property, sc: &Scenario) -> Option<String> {
    if sc.world.check_well_formed().is_err() {
        return None;
    }
    for s in &sc.solves {
        if sc.world.check_problem(&s.problem).is_err() {
            return None;
        }
    }
    prop.judge(sc).violation.map(|(c, _)| c)
}

fn gc(w: &mut World, sc_reqs: &[(Vec<Req>, Vec<u32>)]) {
    // drop unions / version sets nobody references
    let mut used_vs: BTreeSet<u32> = BTreeSet::new();
    let mut used_un: BTreeSet<u32> = BTreeSet::new();
    let mut visit = |reqs: &[Req], cons: &[u32], uv: &mut BTreeSet<u32>, uu: &mut BTreeSet<u32>| {
        for r in reqs {
            match r {
                Req::Single(v) => {
                    uv.insert(*v);
                }
                Req::Union(u) => {
                    uu.insert(*u);
                }
            }
        }
        uv.extend(cons.iter().copied());
    };
    for (r, c) in sc_reqs {
        visit(r, c, &mut used_vs, &mut used_un);
    }
    for s in w.solvables.values() {
        if let Deps::Known {
            requirements,
            constrains,
        } = &s.deps
        {
            visit(requirements, constrains, &mut used_vs, &mut used_un);
        }
    }
    w.unions.retain(|k, _| used_un.contains(k));
    for m in w.unions.values() {
        used_vs.extend(m.iter().copied());
    }
    w.version_sets.retain(|k, _| used_vs.contains(k));
    let used_names: BTreeSet<u32> = w
        .version_sets
        .values()
        .map(|v| v.name)
        .chain(w.solvables.values().map(|s| s.name))
        .collect();
    w.packages.retain(|k, _| used_names.contains(k));
    let kept: BTreeSet<u32> = w.packages.keys().copied().collect();
    w.alt_rank.retain(|k, _| kept.contains(k));
}

fn remove_solvable(sc: &mut Scenario, s: u32) {
    let w = &mut sc.world;
    let Some(sv) = w.solvables.remove(&s) else {
        return;
    };
    if let Some(p) = w.packages.get_mut(&sv.name) {
        p.candidates.retain(|x| *x != s);
        p.rank.retain(|x| *x != s);
        if let Some((_, alt)) = w.alt_rank.get_mut(&sv.name) {
            alt.retain(|x| *x != s);
        }
        if p.favored == Some(s) {
            p.favored = None;
        }
        if p.locked == Some(s) {
            p.locked = None;
        }
        p.excluded.retain(|(x, _)| *x != s);
        if let Hint::Some(v) = &mut p.hint {
            v.retain(|x| *x != s);
        }
    }
    for v in w.version_sets.values_mut() {
        v.matches.retain(|x| *x != s);
    }
    for sol in sc.solves.iter_mut() {
        sol.problem.soft.retain(|x| *x != s);
    }
}

/// All single-step simplifications of a scenario.
fn candidates(sc: &Scenario) -> Vec<Scenario> {
    let mut out = Vec::new();
    let mut push = |f: &dyn Fn(&mut Scenario)| {
        let mut c = sc.clone();
        f(&mut c);
        if c != *sc {
            out.push(c);
        }
    };
    // configuration
    push(&|c| {
        c.runtime = RuntimeKind::NowOrNever;
        c.yield_mask = 0;
        c.policy = Policy::Fifo;
        c.batch_p = 0;
        c.spurious_p = 0;
    });
    push(&|c| c.policy = Policy::Fifo);
    push(&|c| c.batch_p = 0);
    push(&|c| c.spurious_p = 0);
    push(&|c| c.activity = None);
    push(&|c| c.reentrant_sort = false);
    push(&|c| c.render = false);
    push(&|c| c.world.filter_reversed = false);
    if !sc.world.alt_rank.is_empty() {
        push(&|c| c.world.alt_rank.clear());
    }
    push(&|c| c.cancel_during_render = false);
    push(&|c| c.rewrap_before_render = false);
    for bit in [1u8, 2, 4, 8] {
        push(&|c| c.yield_mask &= !bit);
    }
    if sc.extra_salts.len() > 1 {
        for i in 0..sc.extra_salts.len() {
            push(&|c| {
                c.extra_salts.remove(i);
            });
        }
    }
    // history
    if sc.immediate_p != 0 {
        push(&|c| c.immediate_p = 0);
    }
    if sc.token_repr != 0 {
        push(&|c| c.token_repr = 0);
    }
    if sc.repeat > 1 {
        push(&|c| c.repeat = 1);
        push(&|c| c.repeat /= 2);
        push(&|c| c.repeat -= 1);
    }
    if sc.solves.len() > 1 {
        for i in 0..sc.solves.len() {
            push(&|c| {
                c.solves.remove(i);
            });
        }
    }
    for i in 0..sc.solves.len() {
        push(&|c| c.solves[i].cancel = None);
        if let Some(pl) = &sc.solves[i].cancel {
            if pl.at_poll > 0 {
                push(&|c| c.solves[i].cancel.as_mut().unwrap().at_poll /= 2);
                push(&|c| c.solves[i].cancel.as_mut().unwrap().at_poll -= 1);
            }
        }
        for j in 0..sc.solves[i].problem.requirements.len() {
            push(&|c| {
                c.solves[i].problem.requirements.remove(j);
            });
            if let Req::Union(u) = &sc.solves[i].problem.requirements[j] {
                for m in sc.world.unions[u].clone() {
                    push(&|c| c.solves[i].problem.requirements[j] = Req::Single(m));
                }
            }
        }
        for j in 0..sc.solves[i].problem.constraints.len() {
            push(&|c| {
                c.solves[i].problem.constraints.remove(j);
            });
        }
        for j in 0..sc.solves[i].problem.soft.len() {
            push(&|c| {
                c.solves[i].problem.soft.remove(j);
            });
        }
    }
    // world: whole packages' candidates, single solvables
    for (n, p) in &sc.world.packages {
        if p.candidates.len() > 1 {
            let cs = p.candidates.clone();
            push(&|c| {
                for s in &cs {
                    remove_solvable(c, *s);
                }
            });
        }
        let n = *n;
        if p.favored.is_some() {
            push(&|c| c.world.packages.get_mut(&n).unwrap().favored = None);
        }
        if p.locked.is_some() {
            push(&|c| c.world.packages.get_mut(&n).unwrap().locked = None);
        }
        for i in 0..p.excluded.len() {
            push(&|c| {
                c.world.packages.get_mut(&n).unwrap().excluded.remove(i);
            });
        }
        if p.hint != Hint::None {
            push(&|c| c.world.packages.get_mut(&n).unwrap().hint = Hint::None);
            if let Hint::Some(v) = &p.hint {
                for i in 0..v.len() {
                    push(&|c| {
                        if let Hint::Some(v) = &mut c.world.packages.get_mut(&n).unwrap().hint {
                            v.remove(i);
                        }
                    });
                }
            }
        }
        if p.missing {
            push(&|c| c.world.packages.get_mut(&n).unwrap().missing = false);
        }
        // canonical orders
        push(&|c| {
            let p = c.world.packages.get_mut(&n).unwrap();
            p.candidates.sort();
        });
        push(&|c| {
            let p = c.world.packages.get_mut(&n).unwrap();
            p.rank = p.candidates.clone();
        });
    }
    for (s, sv) in &sc.world.solvables {
        let s = *s;
        push(&|c| remove_solvable(c, s));
        match &sv.deps {
            Deps::Unknown(_) => push(&|c| {
                c.world.solvables.get_mut(&s).unwrap().deps = Deps::Known {
                    requirements: vec![],
                    constrains: vec![],
                }
            }),
            Deps::Known {
                requirements,
                constrains,
            } => {
                if !requirements.is_empty() || !constrains.is_empty() {
                    push(&|c| {
                        c.world.solvables.get_mut(&s).unwrap().deps = Deps::Known {
                            requirements: vec![],
                            constrains: vec![],
                        }
                    });
                }
                for j in 0..requirements.len() {
                    push(&|c| {
                        if let Deps::Known { requirements, .. } = &mut c.world.solvables.get_mut(&s).unwrap().deps {
                            requirements.remove(j);
                        }
                    });
                    if let Req::Union(u) = &requirements[j] {
                        for m in sc.world.unions[u].clone() {
                            push(&|c| {
                                if let Deps::Known { requirements, .. } = &mut c.world.solvables.get_mut(&s).unwrap().deps {
                                    requirements[j] = Req::Single(m);
                                }
                            });
                        }
                    }
                }
                for j in 0..constrains.len() {
                    push(&|c| {
                        if let Deps::Known { constrains, .. } = &mut c.world.solvables.get_mut(&s).unwrap().deps {
                            constrains.remove(j);
                        }
                    });
                }
            }
        }
    }
    for (v, vs) in &sc.world.version_sets {
        let v = *v;
        for i in 0..vs.matches.len() {
            push(&|c| {
                c.world.version_sets.get_mut(&v).unwrap().matches.remove(i);
            });
        }
        // grow to the full set (simpler to read)
        let full: Vec<u32> = {
            let mut f = sc.world.packages[&vs.name].candidates.clone();
            f.sort();
            f
        };
        if full != vs.matches {
            push(&|c| c.world.version_sets.get_mut(&v).unwrap().matches = full.clone());
        }
    }
    for (u, m) in &sc.world.unions {
        let u = *u;
        if m.len() > 2 {
            for i in 0..m.len() {
                push(&|c| {
                    c.world.unions.get_mut(&u).unwrap().remove(i);
                });
            }
        }
    }
    out
}

fn collect_garbage(sc: &mut Scenario) {
    let reqs: Vec<(Vec<Req>, Vec<u32>)> = sc
        .solves
        .iter()
        .map(|s| (s.problem.requirements.clone(), s.problem.constraints.clone()))
        .collect();
    gc(&mut sc.world, &reqs);
}

/// Renumber all ids densely in order of appearance.
fn densify(sc: &Scenario) -> Scenario {
    use std::collections::BTreeMap;
    let mut c = sc.clone();
    let w = &sc.world;
    let mn: BTreeMap<u32, u32> = w.packages.keys().enumerate().map(|(i, k)| (*k, i as u32)).collect();
    let ms: BTreeMap<u32, u32> = w.solvables.keys().enumerate().map(|(i, k)| (*k, i as u32)).collect();
    let mv: BTreeMap<u32, u32> = w.version_sets.keys().enumerate().map(|(i, k)| (*k, i as u32)).collect();
    let mu: BTreeMap<u32, u32> = w.unions.keys().enumerate().map(|(i, k)| (*k, i as u32)).collect();
    let mut strs: BTreeSet<u32> = BTreeSet::new();
    for p in w.packages.values() {
        for (_, r) in &p.excluded {
            strs.insert(*r);
        }
    }
    for s in w.solvables.values() {
        if let Deps::Unknown(r) = s.deps {
            strs.insert(r);
        }
    }
    let mt: BTreeMap<u32, u32> = strs.iter().enumerate().map(|(i, k)| (*k, i as u32)).collect();
    let mut problems: Vec<_> = c.solves.iter().map(|s| s.problem.clone()).collect();
    crate::gen::apply_maps(&mut c.world, &mut problems, &mn, &ms, &mv, &mu, &mt);
    for (s, p) in c.solves.iter_mut().zip(problems) {
        s.problem = p;
    }
    c
}

pub fn minimise(prop: &dyn Property, sc: &Scenario, class: &str, budget: Duration) -> Scenario {
    let start = Instant::now();
    let mut cur = sc.clone();
    let mut progress = true;
    while progress && start.elapsed() < budget {
        progress = false;
        for mut cand in candidates(&cur) {
            if start.elapsed() >= budget {
                break;
            }
            collect_garbage(&mut cand);
            if cand == cur {
                continue;
            }
            if class_of(prop, &cand).as_deref() == Some(class) {
                cur = cand;
                progress = true;
                break;
            }
        }
    }
    let d = densify(&cur);
    if d != cur && class_of(prop, &d).as_deref() == Some(class) {
        cur = d;
    }
    // make the schedule explicit
    if cur.runtime == RuntimeKind::Sim && !matches!(cur.policy, Policy::Trace(_)) {
        let rec = execute(&cur);
        let mut t = cur.clone();
        t.policy = Policy::Trace(rec.trace.clone());
        t.batch_p = 0;
        t.spurious_p = 0;
        if class_of(prop, &t).as_deref() == Some(class) {
            cur = t;
        }
    }
    cur
}
