//! Seeded generation of worlds, problems and configurations (swarm style: the shape parameters
//! themselves are drawn per run).

use crate::core::{Kind, Policy, Y_CAND, Y_DEPS, Y_FILTER, Y_SORT};
use crate::prng::Rng;
use crate::run::{RuntimeKind, Scenario};
use crate::world::{Deps, Hint, Package, ProblemSpec, Req, Solvable, VersionSet, World};
use std::collections::{BTreeMap, BTreeSet};

#[derive(Clone, Debug)]
pub struct GenParams {
    pub min_packages: usize,
    pub max_packages: usize,
    pub max_candidates: usize,
    /// total solvable cap
    pub max_solvables: usize,
    pub max_reqs: usize,
    pub max_constrains: usize,
    /// x/16 probabilities
    pub p_union: usize,
    pub p_unknown: usize,
    pub p_missing: usize,
    pub p_excluded: usize,
    pub p_locked: usize,
    pub p_favored: usize,
    pub p_empty_vs: usize,
    pub p_self_constrain: usize,
    pub p_same_pkg_union: usize,
    /// hint mode weights: none / all / some / mixed-per-package
    pub hint_weights: [usize; 4],
    /// version set shape weights: full / singleton / subset / range
    pub vs_weights: [usize; 4],
    pub max_root_reqs: usize,
    pub max_root_constraints: usize,
    pub max_soft: usize,
    /// id layout weights: dense / shuffled / sparse
    pub id_weights: [usize; 3],
    /// requirements only point "forward" (no cycles)
    pub acyclic: bool,
    /// version set shape weights for root requirements (None = vs_weights)
    pub root_vs_weights: Option<[usize; 4]>,
    /// x/64: a package gets 21..60 candidates (sizes at which library sort routines change algorithm)
    pub p_big_package: usize,
}

impl GenParams {
    pub fn wide() -> Self {
        GenParams {
            min_packages: 1,
            max_packages: 8,
            max_candidates: 5,
            max_solvables: 48,
            max_reqs: 3,
            max_constrains: 2,
            p_union: 3,
            p_unknown: 1,
            p_missing: 1,
            p_excluded: 1,
            p_locked: 1,
            p_favored: 3,
            p_empty_vs: 1,
            p_self_constrain: 1,
            p_same_pkg_union: 1,
            hint_weights: [6, 2, 2, 4],
            vs_weights: [4, 3, 5, 3],
            max_root_reqs: 4,
            max_root_constraints: 2,
            max_soft: 0,
            id_weights: [6, 3, 3],
            acyclic: false,
            root_vs_weights: None,
            p_big_package: 0,
        }
    }

    /// conflict-rich: narrow version sets, more candidates, no faults that trivialise the instance
    pub fn conflict_rich() -> Self {
        GenParams {
            min_packages: 3,
            max_packages: 9,
            max_candidates: 6,
            max_solvables: 48,
            max_reqs: 4,
            max_constrains: 3,
            p_union: 2,
            p_unknown: 1,
            p_missing: 0,
            p_excluded: 1,
            p_locked: 1,
            p_favored: 2,
            p_empty_vs: 0,
            p_self_constrain: 0,
            p_same_pkg_union: 0,
            hint_weights: [6, 2, 2, 4],
            vs_weights: [1, 5, 6, 4],
            max_root_reqs: 4,
            max_root_constraints: 2,
            max_soft: 0,
            id_weights: [6, 3, 3],
            acyclic: false,
            root_vs_weights: None,
            p_big_package: 0,
        }
    }

    /// dense: few small packages with every feature at a high rate (hints x Unknown x exclusions x locks x constrains x
    /// unions), so that the rare conjunctions of lazily discovered facts, eager encoding and restarts are frequent
    pub fn dense() -> Self {
        GenParams {
            min_packages: 2,
            max_packages: 6,
            max_candidates: 3,
            max_solvables: 24,
            max_reqs: 3,
            max_constrains: 2,
            p_union: 3,
            p_unknown: 3,
            p_missing: 1,
            p_excluded: 2,
            p_locked: 1,
            p_favored: 2,
            p_empty_vs: 1,
            p_self_constrain: 0,
            p_same_pkg_union: 1,
            hint_weights: [2, 3, 4, 4],
            vs_weights: [3, 4, 4, 2],
            max_root_reqs: 3,
            max_root_constraints: 1,
            max_soft: 0,
            id_weights: [6, 3, 3],
            acyclic: false,
            root_vs_weights: None,
            p_big_package: 0,
        }
    }

    /// mostly conflict-free (for first-choice properties)
    pub fn conflict_free() -> Self {
        GenParams {
            min_packages: 1,
            max_packages: 9,
            max_candidates: 4,
            max_solvables: 40,
            max_reqs: 3,
            max_constrains: 1,
            p_union: 3,
            p_unknown: 0,
            p_missing: 0,
            p_excluded: 0,
            p_locked: 0,
            p_favored: 5,
            p_empty_vs: 0,
            p_self_constrain: 0,
            p_same_pkg_union: 0,
            hint_weights: [6, 2, 2, 4],
            vs_weights: [8, 1, 3, 3],
            max_root_reqs: 4,
            max_root_constraints: 1,
            max_soft: 0,
            id_weights: [6, 3, 3],
            acyclic: false,
            root_vs_weights: None,
            p_big_package: 0,
        }
    }
}

struct Builder<'a> {
    rng: &'a mut Rng,
    p: &'a GenParams,
    vs_override: Option<[usize; 4]>,
    w: World,
    next_vs: u32,
    next_union: u32,
    next_string: u32,
    names: Vec<u32>,
}

impl Builder<'_> {
    fn new_vs(&mut self, name: u32) -> u32 {
        let cands = self.w.packages[&name].candidates.clone();
        let mut matches: Vec<u32> = if cands.is_empty() {
            vec![]
        } else if self.p.p_empty_vs > 0 && self.rng.chance(self.p.p_empty_vs, 32) {
            vec![]
        } else {
            let weights = self.vs_override.unwrap_or(self.p.vs_weights);
            match self.rng.weighted(&weights) {
                0 => cands.clone(),
                1 => vec![*self.rng.pick(&cands)],
                2 => {
                    let mut v: Vec<u32> = cands
                        .iter()
                        .copied()
                        .filter(|_| self.rng.chance(1, 2))
                        .collect();
                    if v.is_empty() {
                        v.push(*self.rng.pick(&cands));
                    }
                    v
                }
                _ => {
                    let a = self.rng.below(cands.len());
                    let b = self.rng.range(a, cands.len() - 1);
                    cands[a..=b].to_vec()
                }
            }
        };
        matches.sort();
        // reuse an identical version set sometimes (so that the same requirement appears in several places)
        if self.rng.chance(1, 3) {
            for (id, v) in &self.w.version_sets {
                if v.name == name && v.matches == matches {
                    return *id;
                }
            }
        }
        let id = self.next_vs;
        self.next_vs += 1;
        self.w.version_sets.insert(id, VersionSet { name, matches });
        id
    }

    fn new_req(&mut self, from_pos: Option<usize>) -> Req {
        let pick_name = |b: &mut Self| -> u32 {
            if b.p.acyclic {
                if let Some(pos) = from_pos {
                    // only later packages
                    if pos + 1 < b.names.len() {
                        let i = b.rng.range(pos + 1, b.names.len() - 1);
                        return b.names[i];
                    }
                }
            }
            *b.rng.pick(&b.names)
        };
        if self.names.len() >= 2 && self.rng.chance(self.p.p_union, 16) {
            // real providers intern their unions: the same union id may be used by several requirements
            if !self.w.unions.is_empty() && self.rng.chance(1, 3) {
                let ids: Vec<u32> = self.w.unions.keys().copied().collect();
                return Req::Union(*self.rng.pick(&ids));
            }
            let k = self.rng.range(2, 3);
            let mut members = Vec::new();
            let mut used = BTreeSet::new();
            for _ in 0..k {
                let n = pick_name(self);
                if used.contains(&n) && !self.rng.chance(self.p.p_same_pkg_union, 16) {
                    continue;
                }
                used.insert(n);
                let vs = self.new_vs(n);
                if !members.contains(&vs) {
                    members.push(vs);
                }
            }
            if members.len() >= 2 {
                let id = self.next_union;
                self.next_union += 1;
                self.w.unions.insert(id, members);
                return Req::Union(id);
            }
        }
        let n = pick_name(self);
        Req::Single(self.new_vs(n))
    }
}

/// Generate a world plus `n_problems` problems over it.
pub fn gen_world(rng: &mut Rng, p: &GenParams, n_problems: usize) -> (World, Vec<ProblemSpec>) {
    let n_pk = rng.range(p.min_packages, p.max_packages);
    let mut b = Builder {
        rng,
        p,
        vs_override: None,
        w: World::default(),
        next_vs: 0,
        next_union: 0,
        next_string: 0,
        names: (0..n_pk as u32).collect(),
    };
    // packages + candidates
    let mut next_s = 0u32;
    let hint_mode = b.rng.weighted(&p.hint_weights);
    for n in 0..n_pk as u32 {
        let missing = p.p_missing > 0 && b.rng.chance(p.p_missing, 16);
        let remaining = p.max_solvables.saturating_sub(next_s as usize);
        let k = if missing {
            0
        } else {
            // mostly >= 1 candidate, occasionally an existing but empty package
            let k = if b.rng.chance(1, 24) {
                0
            } else {
                b.rng.range(1, p.max_candidates)
            };
            if p.p_big_package > 0 && b.rng.chance(p.p_big_package, 64) {
                b.rng.range(21, 60)
            } else {
                k.min(remaining)
            }
        };
        let mut cands: Vec<u32> = (next_s..next_s + k as u32).collect();
        next_s += k as u32;
        b.rng.shuffle(&mut cands);
        let mut rank = cands.clone();
        b.rng.shuffle(&mut rank);
        let favored = if k > 0 && b.rng.chance(p.p_favored, 16) {
            Some(*b.rng.pick(&cands))
        } else {
            None
        };
        let locked = if k > 0 && b.rng.chance(p.p_locked, 16) {
            Some(*b.rng.pick(&cands))
        } else {
            None
        };
        let mut excluded = Vec::new();
        if k > 0 && p.p_excluded > 0 {
            for &c in &cands {
                if b.rng.chance(p.p_excluded, 16) {
                    let reason = if b.next_string > 0 && b.rng.chance(1, 2) {
                        b.rng.below(b.next_string as usize) as u32
                    } else {
                        b.next_string += 1;
                        b.next_string - 1
                    };
                    excluded.push((c, reason));
                }
            }
        }
        let pkg_hint_mode = if hint_mode == 3 {
            b.rng.below(3)
        } else {
            hint_mode
        };
        let hint = match pkg_hint_mode {
            0 => Hint::None,
            1 => Hint::All,
            _ => Hint::Some(
                cands
                    .iter()
                    .copied()
                    .filter(|_| b.rng.chance(1, 2))
                    .collect(),
            ),
        };
        for &c in &cands {
            b.w.solvables.insert(
                c,
                Solvable {
                    name: n,
                    deps: Deps::Known {
                        requirements: vec![],
                        constrains: vec![],
                    },
                },
            );
        }
        b.w.packages.insert(
            n,
            Package {
                candidates: cands,
                rank,
                favored,
                locked,
                excluded,
                hint,
                missing,
            },
        );
    }
    // dependencies
    let all_s: Vec<u32> = b.w.solvables.keys().copied().collect();
    for s in all_s {
        let name = b.w.solvables[&s].name;
        let pos = b.names.iter().position(|&x| x == name);
        if p.p_unknown > 0 && b.rng.chance(p.p_unknown, 16) {
            let reason = b.next_string;
            b.next_string += 1;
            b.w.solvables.get_mut(&s).unwrap().deps = Deps::Unknown(reason);
            continue;
        }
        let n_req = if p.acyclic && pos == Some(b.names.len() - 1) {
            0
        } else {
            b.rng.below(p.max_reqs + 1)
        };
        let mut requirements = Vec::new();
        for _ in 0..n_req {
            let r = b.new_req(pos);
            // duplicate requirement entries occur in real metadata; keep them occasionally
            if !requirements.contains(&r) || b.rng.chance(1, 8) {
                requirements.push(r);
            }
        }
        let n_con = b.rng.below(p.max_constrains + 1);
        let mut constrains = Vec::new();
        for _ in 0..n_con {
            let n = *b.rng.pick(&b.names);
            let vs = b.new_vs(n);
            if n == name
                && !b.w.version_sets[&vs].matches.contains(&s)
                && !b.rng.chance(p.p_self_constrain, 16)
            {
                // a solvable that constrains itself away is legal but kept rare
                continue;
            }
            constrains.push(vs);
        }
        b.w.solvables.get_mut(&s).unwrap().deps = Deps::Known {
            requirements,
            constrains,
        };
    }
    // problems
    let mut problems = Vec::new();
    for _ in 0..n_problems {
        let n_req = b.rng.range(if p.max_root_reqs > 0 { 1 } else { 0 }, p.max_root_reqs.max(1));
        let mut requirements = Vec::new();
        b.vs_override = p.root_vs_weights;
        for _ in 0..n_req {
            let r = b.new_req(None);
            if !requirements.contains(&r) || b.rng.chance(1, 8) {
                requirements.push(r);
            }
        }
        b.vs_override = None;
        let n_con = b.rng.below(p.max_root_constraints + 1);
        let mut constraints = Vec::new();
        for _ in 0..n_con {
            let n = *b.rng.pick(&b.names);
            constraints.push(b.new_vs(n));
        }
        let mut soft = Vec::new();
        if p.max_soft > 0 && !b.w.solvables.is_empty() {
            let all: Vec<u32> = b.w.solvables.keys().copied().collect();
            let k = b.rng.below(p.max_soft + 1);
            for _ in 0..k {
                soft.push(*b.rng.pick(&all));
            }
        }
        problems.push(ProblemSpec {
            requirements,
            constraints,
            soft,
        });
    }
    let mut w = b.w;
    w.filter_reversed = rng.chance(1, 6);
    let layout = rng.weighted(&p.id_weights);
    if layout != 0 {
        renumber(rng, &mut w, &mut problems, layout == 2);
    }
    (w, problems)
}

fn id_map(rng: &mut Rng, ids: &[u32], sparse: bool, limit: u32) -> BTreeMap<u32, u32> {
    let n = ids.len();
    let mut targets: Vec<u32> = if sparse {
        // strictly increasing ids with random gaps, may cross a 128-slot chunk boundary
        let mut v = Vec::new();
        let mut cur = rng.below(4) as u32;
        let gap_max = ((limit as usize) / n.max(1)).clamp(2, 40);
        for _ in 0..n {
            v.push(cur);
            cur += 1 + rng.below(gap_max) as u32;
        }
        v
    } else {
        (0..n as u32).collect()
    };
    // chunked containers in the subject use 128 slots per chunk: put the highest id on or next to a chunk boundary
    if sparse && n > 0 && rng.chance(1, 3) {
        let b = 128 * rng.range(1, 2) as u32;
        let top = match rng.below(3) {
            0 => b - 1,
            1 => b,
            _ => b + 1,
        };
        let second = if n >= 2 { targets[n - 2] } else { 0 };
        if top > second || n == 1 {
            targets[n - 1] = top;
        }
        // and sometimes a second id right after the boundary
        if n >= 3 && rng.chance(1, 2) && targets[n - 3] < b + 2 && b + 2 < targets[n - 1] {
            targets[n - 2] = b + 2;
        }
    }
    rng.shuffle(&mut targets);
    ids.iter().copied().zip(targets).collect()
}

/// Renumber every id space (names, solvables, version sets, unions, strings).
pub fn renumber(rng: &mut Rng, w: &mut World, problems: &mut [ProblemSpec], sparse: bool) {
    let names: Vec<u32> = w.packages.keys().copied().collect();
    let solv: Vec<u32> = w.solvables.keys().copied().collect();
    let vss: Vec<u32> = w.version_sets.keys().copied().collect();
    let uns: Vec<u32> = w.unions.keys().copied().collect();
    let mut strs: BTreeSet<u32> = BTreeSet::new();
    for p in w.packages.values() {
        for (_, r) in &p.excluded {
            strs.insert(*r);
        }
    }
    for s in w.solvables.values() {
        if let Deps::Unknown(r) = s.deps {
            strs.insert(r);
        }
    }
    let strs: Vec<u32> = strs.into_iter().collect();
    let mn = id_map(rng, &names, sparse, 200);
    let ms = id_map(rng, &solv, sparse, 400);
    let mv = id_map(rng, &vss, sparse, 300);
    let mu = id_map(rng, &uns, sparse, 100);
    let mt = id_map(rng, &strs, sparse, 100);
    apply_maps(w, problems, &mn, &ms, &mv, &mu, &mt);
}

pub fn apply_maps(
    w: &mut World,
    problems: &mut [ProblemSpec],
    mn: &BTreeMap<u32, u32>,
    ms: &BTreeMap<u32, u32>,
    mv: &BTreeMap<u32, u32>,
    mu: &BTreeMap<u32, u32>,
    mt: &BTreeMap<u32, u32>,
) {
    let mreq = |r: &Req| match r {
        Req::Single(v) => Req::Single(mv[v]),
        Req::Union(u) => Req::Union(mu[u]),
    };
    let mut nw = World::default();
    for (n, p) in &w.packages {
        nw.packages.insert(
            mn[n],
            Package {
                candidates: p.candidates.iter().map(|s| ms[s]).collect(),
                rank: p.rank.iter().map(|s| ms[s]).collect(),
                favored: p.favored.map(|s| ms[&s]),
                locked: p.locked.map(|s| ms[&s]),
                excluded: p.excluded.iter().map(|(s, r)| (ms[s], mt[r])).collect(),
                hint: match &p.hint {
                    Hint::None => Hint::None,
                    Hint::All => Hint::All,
                    Hint::Some(v) => Hint::Some(v.iter().map(|s| ms[s]).collect()),
                },
                missing: p.missing,
            },
        );
    }
    for (s, sv) in &w.solvables {
        nw.solvables.insert(
            ms[s],
            Solvable {
                name: mn[&sv.name],
                deps: match &sv.deps {
                    Deps::Unknown(r) => Deps::Unknown(mt[r]),
                    Deps::Known {
                        requirements,
                        constrains,
                    } => Deps::Known {
                        requirements: requirements.iter().map(mreq).collect(),
                        constrains: constrains.iter().map(|v| mv[v]).collect(),
                    },
                },
            },
        );
    }
    for (v, vs) in &w.version_sets {
        let mut matches: Vec<u32> = vs.matches.iter().map(|s| ms[s]).collect();
        matches.sort();
        nw.version_sets.insert(
            mv[v],
            VersionSet {
                name: mn[&vs.name],
                matches,
            },
        );
    }
    for (u, members) in &w.unions {
        nw.unions.insert(mu[u], members.iter().map(|v| mv[v]).collect());
    }
    nw.filter_reversed = w.filter_reversed;
    for (n, (t, alt)) in &w.alt_rank {
        nw.alt_rank.insert(mn[n], (*t, alt.iter().map(|s| ms[s]).collect()));
    }
    *w = nw;
    for p in problems.iter_mut() {
        p.requirements = p.requirements.iter().map(mreq).collect();
        p.constraints = p.constraints.iter().map(|v| mv[v]).collect();
        p.soft = p.soft.iter().map(|s| ms[s]).collect();
    }
}

/// Seeded runtime configuration: sync or simulated async with a policy and yield mask.
pub fn gen_config(rng: &mut Rng, sc: &mut Scenario, force_async: Option<bool>) {
    let is_async = force_async.unwrap_or_else(|| rng.chance(2, 3));
    sc.sched_seed = rng.next_u64();
    if !is_async {
        sc.runtime = if rng.chance(1, 2) {
            RuntimeKind::NowOrNever
        } else {
            // the simulator's executor with a non-yielding provider must agree with NowOrNever
            RuntimeKind::Sim
        };
        sc.yield_mask = 0;
        sc.policy = Policy::Fifo;
        return;
    }
    sc.runtime = RuntimeKind::Sim;
    sc.yield_mask = match rng.below(8) {
        0 => Y_CAND,
        1 => Y_DEPS,
        2..=4 => Y_CAND | Y_DEPS,
        5 => Y_CAND | Y_DEPS | Y_SORT,
        _ => Y_CAND | Y_DEPS | Y_FILTER | Y_SORT,
    };
    sc.policy = match rng.below(10) {
        0..=2 => Policy::Random,
        3 => Policy::Fifo,
        4 => Policy::Lifo,
        5 | 6 => Policy::VirtualTime,
        7 => Policy::Starve(*rng.pick(&[Kind::Cand, Kind::Deps, Kind::Sort, Kind::Filter])),
        8 => Policy::StarveOldest,
        _ => Policy::Random,
    };
    sc.batch_p = *rng.pick(&[0, 0, 2, 3, 8]);
    sc.spurious_p = *rng.pick(&[0, 0, 8, 16]);
    // a provider that has part of its metadata at hand answers those requests at once and suspends only for the rest
    // (drawn from a stream of its own, so that the other choices of this configuration stay what they were)
    let mut ir = Rng::stream(sc.sched_seed, "immediate");
    sc.immediate_p = *ir.pick(&[0, 0, 0, 2, 4, 6]);
}

pub fn gen_activity(rng: &mut Rng) -> Option<(f32, f32)> {
    match rng.below(6) {
        0 | 1 | 2 => None,
        3 => Some((1.0, 0.5)),
        4 => Some((rng.f32() * 4.0, 0.05 + rng.f32() * 0.95)),
        _ => Some((0.0, 1.0)),
    }
}


/// Adds packages that nobody requests (highest name ids), whose candidates have a few narrow
/// requirements on existing packages, and names some of those candidates as soft requirements.
/// This is the "soft requirement x unrequested package x conflict below it" corner.
pub fn add_unrequested_soft_packages(rng: &mut Rng, w: &mut World, p: &mut ProblemSpec, k: usize) {
    let existing: Vec<u32> = w
        .packages
        .iter()
        .filter(|(_, pk)| !pk.candidates.is_empty())
        .map(|(n, _)| *n)
        .collect();
    if existing.is_empty() {
        return;
    }
    let mut next_name = w.packages.keys().max().map(|m| m + 1).unwrap_or(0);
    let mut next_s = w.solvables.keys().max().map(|m| m + 1).unwrap_or(0);
    let mut next_vs = w.version_sets.keys().max().map(|m| m + 1).unwrap_or(0);
    for _ in 0..k {
        let name = next_name;
        next_name += 1 + rng.below(2) as u32;
        let n_c = rng.range(1, 2);
        let mut cands = Vec::new();
        for _ in 0..n_c {
            let s = next_s;
            next_s += 1;
            let n_req = rng.range(1, 3);
            let mut requirements = Vec::new();
            for _ in 0..n_req {
                let target = *rng.pick(&existing);
                let tc = w.packages[&target].candidates.clone();
                let mut m: Vec<u32> = tc.iter().copied().filter(|_| rng.chance(1, 2)).collect();
                if m.is_empty() {
                    m.push(*rng.pick(&tc));
                }
                m.sort();
                let vs = next_vs;
                next_vs += 1;
                w.version_sets.insert(vs, VersionSet { name: target, matches: m });
                requirements.push(Req::Single(vs));
            }
            w.solvables.insert(
                s,
                Solvable {
                    name,
                    deps: Deps::Known {
                        requirements,
                        constrains: vec![],
                    },
                },
            );
            cands.push(s);
        }
        w.packages.insert(
            name,
            Package {
                candidates: cands.clone(),
                rank: cands.clone(),
                favored: None,
                locked: None,
                excluded: vec![],
                hint: Hint::None,
                missing: false,
            },
        );
        for c in cands {
            if rng.chance(2, 3) {
                let pos = rng.below(p.soft.len() + 1);
                p.soft.insert(pos, c);
            }
        }
    }
}


/// A "forest": k small independent worlds over disjoint id ranges merged into one, the root problem being the
/// concatenation of their root problems. One solve then runs through many decisions, conflicts, learnt clauses
/// and restarts (long trails; size boundaries that small universes never reach).
pub fn gen_forest(rng: &mut Rng, p: &GenParams, k: usize, sat_bias: bool, gadgets: bool) -> (World, ProblemSpec) {
    let mut w = World::default();
    let mut problem = ProblemSpec::default();
    let mut small = p.clone();
    small.id_weights = [1, 0, 0];
    small.max_packages = small.max_packages.min(5);
    small.max_solvables = 16;
    small.max_root_reqs = small.max_root_reqs.min(2);
    let (mut on, mut os, mut ov, mut ou, mut ot) = (0u32, 0u32, 0u32, 0u32, 0u32);
    let mut made = 0;
    let mut attempts = 0;
    while made < k && attempts < 6 * k {
        attempts += 1;
        let (mut sw, mut sp) = if gadgets && rng.chance(1, 2) {
            conflict_gadget(rng)
        } else {
            gen_world(rng, &small, 1)
        };
        // mostly satisfiable components (an unsatisfiable one ends the whole solve at its first conflict)
        if sat_bias {
            let hard = ProblemSpec {
                requirements: sp[0].requirements.clone(),
                constraints: sp[0].constraints.clone(),
                soft: vec![],
            };
            let sat = crate::reference::ref_solve(&sw, &hard, &[], crate::reference::Leniency::Strict);
            if !matches!(sat, crate::reference::Sat::Sat(_)) && !rng.chance(1, 4 * k) {
                continue;
            }
        }
        made += 1;
        let names: Vec<u32> = sw.packages.keys().copied().collect();
        let solv: Vec<u32> = sw.solvables.keys().copied().collect();
        let vss: Vec<u32> = sw.version_sets.keys().copied().collect();
        let uns: Vec<u32> = sw.unions.keys().copied().collect();
        let mut strs: BTreeSet<u32> = BTreeSet::new();
        for pk in sw.packages.values() {
            for (_, r) in &pk.excluded {
                strs.insert(*r);
            }
        }
        for sv in sw.solvables.values() {
            if let Deps::Unknown(r) = sv.deps {
                strs.insert(r);
            }
        }
        let shift = |ids: &[u32], off: u32| -> BTreeMap<u32, u32> { ids.iter().map(|x| (*x, *x + off)).collect() };
        let strs_v: Vec<u32> = strs.iter().copied().collect();
        let (mn, ms, mv, mu, mt) = (shift(&names, on), shift(&solv, os), shift(&vss, ov), shift(&uns, ou), shift(&strs_v, ot));
        apply_maps(&mut sw, &mut sp, &mn, &ms, &mv, &mu, &mt);
        on += names.iter().max().map(|m| m + 1).unwrap_or(0);
        os += solv.iter().max().map(|m| m + 1).unwrap_or(0);
        ov += vss.iter().max().map(|m| m + 1).unwrap_or(0);
        ou += uns.iter().max().map(|m| m + 1).unwrap_or(0);
        ot += strs_v.iter().max().map(|m| m + 1).unwrap_or(0);
        w.packages.extend(sw.packages);
        w.solvables.extend(sw.solvables);
        w.version_sets.extend(sw.version_sets);
        w.unions.extend(sw.unions);
        let sp = sp.remove(0);
        problem.requirements.extend(sp.requirements);
        problem.constraints.extend(sp.constraints);
    }
    (w, problem)
}


/// A small satisfiable component that costs the solver at least one conflict (so that forests reach long series
/// of learnt clauses): the preferred candidate of the required package runs into a contradiction that is only
/// discovered after further decisions.
pub fn conflict_gadget(rng: &mut Rng) -> (World, Vec<ProblemSpec>) {
    let mut w = World::default();
    let mut next_s = 0u32;
    let mut next_vs = 0u32;
    let mut pkg = |w: &mut World, name: u32, n: usize| -> Vec<u32> {
        let c: Vec<u32> = (next_s..next_s + n as u32).collect();
        next_s += n as u32;
        for x in &c {
            w.solvables.insert(*x, Solvable { name, deps: Deps::Known { requirements: vec![], constrains: vec![] } });
        }
        w.packages.insert(name, Package { candidates: c.clone(), rank: c.clone(), favored: None, locked: None, excluded: vec![], hint: Hint::None, missing: false });
        c
    };
    let mut vs = |w: &mut World, name: u32, mut m: Vec<u32>| -> u32 {
        m.sort();
        let id = next_vs;
        next_vs += 1;
        w.version_sets.insert(id, VersionSet { name, matches: m });
        id
    };
    let set = |w: &mut World, s: u32, reqs: Vec<u32>, cons: Vec<u32>| {
        w.solvables.get_mut(&s).unwrap().deps = Deps::Known { requirements: reqs.into_iter().map(Req::Single).collect(), constrains: cons };
    };
    let g = pkg(&mut w, 0, rng.range(2, 3));
    let root_vs = vs(&mut w, 0, g.clone());
    match rng.below(4) {
        3 => {
            // diamond whose parent is abandoned later: g1 -> a (a1 preferred), b ; b1 -> exactly a2 ;
            // g1 -> c ; c1 -> d ; d1 constrains g away from g1. In the end g2 is installed and nothing needs a.
            let a = pkg(&mut w, 1, 2);
            let b = pkg(&mut w, 2, 1);
            let c = pkg(&mut w, 3, 1);
            let d = pkg(&mut w, 4, 1);
            let aa = vs(&mut w, 1, a.clone());
            let ba = vs(&mut w, 2, b.clone());
            let ca = vs(&mut w, 3, c.clone());
            let da = vs(&mut w, 4, d.clone());
            let a2 = vs(&mut w, 1, vec![a[1]]);
            let not_g1 = vs(&mut w, 0, g[1..].to_vec());
            let mut reqs = vec![aa, ba, ca];
            rng.shuffle(&mut reqs);
            set(&mut w, g[0], reqs, vec![]);
            set(&mut w, b[0], vec![a2], vec![]);
            set(&mut w, c[0], vec![da], vec![]);
            set(&mut w, d[0], vec![], vec![not_g1]);
        }
        0 => {
            // g1 -> x, y ; x1 constrains y away
            let x = pkg(&mut w, 1, 1);
            let y = pkg(&mut w, 2, rng.range(1, 2));
            let xa = vs(&mut w, 1, x.clone());
            let ya = vs(&mut w, 2, y.clone());
            let none_y = vs(&mut w, 2, vec![]);
            set(&mut w, g[0], vec![xa, ya], vec![]);
            set(&mut w, x[0], vec![], vec![none_y]);
        }
        1 => {
            // diamond: g1 -> a (a1 preferred), b ; b1 -> exactly a2, a1 fine otherwise
            let a = pkg(&mut w, 1, 2);
            let b = pkg(&mut w, 2, 1);
            let aa = vs(&mut w, 1, a.clone());
            let ba = vs(&mut w, 2, b.clone());
            let a2 = vs(&mut w, 1, vec![a[1]]);
            set(&mut w, g[0], vec![aa, ba], vec![]);
            set(&mut w, b[0], vec![a2], vec![]);
        }
        _ => {
            // chain: g1 -> c ; c1 -> d ; d1 constrains g to not-g1 ; c2 free
            let c = pkg(&mut w, 1, 2);
            let d = pkg(&mut w, 2, 1);
            let ca = vs(&mut w, 1, c.clone());
            let da = vs(&mut w, 2, d.clone());
            let not_g1 = vs(&mut w, 0, g[1..].to_vec());
            set(&mut w, g[0], vec![ca], vec![]);
            set(&mut w, c[0], vec![da], vec![]);
            set(&mut w, d[0], vec![], vec![not_g1]);
        }
    }
    (w, vec![ProblemSpec { requirements: vec![Req::Single(root_vs)], constraints: vec![], soft: vec![] }])
}


/// Cyclic conflict family: packages C_0 .. C_{k-1} (k = 2..4) whose candidates require the next package of the cycle,
/// so that the requirement edges of an unsatisfiable core form a cycle; what makes the problem unsatisfiable is that
/// the members of the cycle pin a further package D to different candidates (or constrain each other away, or need a
/// package without candidates). Every package of the cycle has 1..3 candidates with *identical* dependencies
/// (interchangeable builds, which the conflict report merges), the root enters the cycle through a single requirement
/// or through a union over several cycle packages, and optionally a satisfiable escape exists.
pub fn cyclic_conflict(rng: &mut Rng) -> (World, ProblemSpec) {
    let mut w = World::default();
    let mut next_s = 0u32;
    let mut next_vs = 0u32;
    let mut next_union = 0u32;
    let k = rng.range(2, 4) as u32;
    let d_name = k;
    let dead_name = k + 1;
    let mut pkg = |w: &mut World, rng: &mut Rng, name: u32, n: usize| -> Vec<u32> {
        let c: Vec<u32> = (next_s..next_s + n as u32).collect();
        next_s += n as u32;
        for x in &c {
            w.solvables.insert(*x, Solvable { name, deps: Deps::Known { requirements: vec![], constrains: vec![] } });
        }
        let mut rank = c.clone();
        rng.shuffle(&mut rank);
        w.packages.insert(name, Package { candidates: c.clone(), rank, favored: None, locked: None, excluded: vec![], hint: if rng.chance(1, 4) { Hint::All } else { Hint::None }, missing: false });
        c
    };
    let mut vs = |w: &mut World, name: u32, mut m: Vec<u32>| -> u32 {
        m.sort();
        let id = next_vs;
        next_vs += 1;
        w.version_sets.insert(id, VersionSet { name, matches: m });
        id
    };
    let cyc: Vec<Vec<u32>> = (0..k).map(|n| { let m = rng.range(1, 3); pkg(&mut w, rng, n, m) }).collect();
    let d = pkg(&mut w, rng, d_name, k as usize);
    pkg(&mut w, rng, dead_name, 0);
    let mode = rng.below(3);
    let twins = rng.chance(3, 4);
    for n in 0..k {
        let next = (n + 1) % k;
        let any_next = vs(&mut w, next, cyc[next as usize].clone());
        let mut base_reqs = vec![Req::Single(any_next)];
        let mut base_cons = vec![];
        match mode {
            0 => base_reqs.push(Req::Single(vs(&mut w, d_name, vec![d[n as usize]]))),
            1 => {
                // every member needs D (any) but constrains D to its own candidate
                base_reqs.push(Req::Single(vs(&mut w, d_name, d.clone())));
                base_cons.push(vs(&mut w, d_name, vec![d[n as usize]]));
            }
            _ => {
                // only the last member of the cycle is broken: it needs a package without candidates
                if n == k - 1 {
                    base_reqs.push(Req::Single(vs(&mut w, dead_name, vec![])));
                }
            }
        }
        if rng.chance(1, 2) {
            base_reqs.reverse();
        }
        for (i, c) in cyc[n as usize].iter().enumerate() {
            let mut reqs = base_reqs.clone();
            if !twins && i > 0 {
                // not interchangeable: an extra harmless requirement on D
                reqs.push(Req::Single(vs(&mut w, d_name, d.clone())));
            }
            w.solvables.get_mut(c).unwrap().deps = Deps::Known { requirements: reqs, constrains: base_cons.clone() };
        }
    }
    // entry
    let mut requirements = Vec::new();
    if rng.chance(1, 2) {
        let mut members: Vec<u32> = Vec::new();
        let m = rng.range(2, k as usize);
        let mut names: Vec<u32> = (0..k).collect();
        rng.shuffle(&mut names);
        for n in names.into_iter().take(m) {
            members.push(vs(&mut w, n, cyc[n as usize].clone()));
        }
        let id = next_union;
        next_union += 1;
        w.unions.insert(id, members);
        requirements.push(Req::Union(id));
    } else {
        let n = rng.below(k as usize) as u32;
        requirements.push(Req::Single(vs(&mut w, n, cyc[n as usize].clone())));
    }
    let _ = next_union;
    (w, ProblemSpec { requirements, constraints: vec![], soft: vec![] })
}

/// Deep prefix: the problem's requirements move behind a chain of `len` packages with two candidates each (the
/// preferred one continues the chain, the other one is a leaf), so that the solver has made `len` decisions - one
/// decision level each - before it reaches the original world. Root constraints and soft requirements stay where they are.
pub fn add_deep_prefix(rng: &mut Rng, w: &mut World, p: &mut ProblemSpec, len: usize) {
    let mut next_name = w.packages.keys().max().map(|m| m + 1).unwrap_or(0);
    let mut next_s = w.solvables.keys().max().map(|m| m + 1).unwrap_or(0);
    let mut next_vs = w.version_sets.keys().max().map(|m| m + 1).unwrap_or(0);
    let mut tail_reqs = std::mem::take(&mut p.requirements);
    // built from the far end: link i requires link i+1
    for i in (0..len).rev() {
        let (a, b) = (next_s, next_s + 1);
        next_s += 2;
        let n = next_name;
        next_name += 1;
        w.solvables.insert(a, Solvable { name: n, deps: Deps::Known { requirements: std::mem::take(&mut tail_reqs), constrains: vec![] } });
        w.solvables.insert(b, Solvable { name: n, deps: Deps::Known { requirements: vec![], constrains: vec![] } });
        let leaf_first = i > 0 && rng.chance(1, 12);
        w.packages.insert(n, Package { candidates: vec![a, b], rank: if leaf_first { vec![b, a] } else { vec![a, b] }, favored: None, locked: None, excluded: vec![], hint: Hint::None, missing: false });
        w.version_sets.insert(next_vs, VersionSet { name: n, matches: vec![a, b] });
        tail_reqs = vec![Req::Single(next_vs)];
        next_vs += 1;
    }
    p.requirements = tail_reqs;
}

/// `k` further problems over an existing world, built from the version sets and unions the world already has (the
/// world is not changed): used to put earlier solves in front of a problem on one solver.
pub fn problems_over(rng: &mut Rng, w: &World, p: &GenParams, k: usize) -> Vec<ProblemSpec> {
    let vss: Vec<u32> = w.version_sets.keys().copied().collect();
    let unions: Vec<u32> = w.unions.keys().copied().collect();
    let all: Vec<u32> = w.solvables.keys().copied().collect();
    let mut out = Vec::new();
    for _ in 0..k {
        let mut requirements = Vec::new();
        if !vss.is_empty() {
            for _ in 0..rng.range(1, p.max_root_reqs.max(1)) {
                let r = if !unions.is_empty() && rng.chance(1, 6) { Req::Union(*rng.pick(&unions)) } else { Req::Single(*rng.pick(&vss)) };
                if !requirements.contains(&r) {
                    requirements.push(r);
                }
            }
        }
        let mut constraints = Vec::new();
        if !vss.is_empty() {
            for _ in 0..rng.below(p.max_root_constraints + 1) {
                constraints.push(*rng.pick(&vss));
            }
        }
        let mut soft = Vec::new();
        if !all.is_empty() && rng.chance(1, 3) {
            for _ in 0..rng.range(1, 2) {
                soft.push(*rng.pick(&all));
            }
        }
        out.push(ProblemSpec { requirements, constraints, soft });
    }
    out
}

/// Large conflict family: 2..3 packages with 31..50 candidates each, every candidate pinning a shared package to a
/// candidate that no candidate of the other packages accepts - unsatisfiable with a conflict of well over 64 clauses in
/// which many nodes own several clauses (containers that switch representation with their size).
pub fn large_conflict(rng: &mut Rng) -> (World, ProblemSpec) {
    let mut w = World::default();
    let mut next_s = 0u32;
    let mut next_vs = 0u32;
    let k = rng.range(2, 3) as u32;
    let shared = k;
    let sizes: Vec<usize> = (0..k).map(|_| rng.range(31, 50)).collect();
    let total: usize = sizes.iter().sum();
    let mut mk = |w: &mut World, rng: &mut Rng, name: u32, n: usize| -> Vec<u32> {
        let c: Vec<u32> = (next_s..next_s + n as u32).collect();
        next_s += n as u32;
        for x in &c {
            w.solvables.insert(*x, Solvable { name, deps: Deps::Known { requirements: vec![], constrains: vec![] } });
        }
        let mut rank = c.clone();
        rng.shuffle(&mut rank);
        w.packages.insert(name, Package { candidates: c.clone(), rank, favored: None, locked: None, excluded: vec![], hint: if rng.chance(1, 3) { Hint::All } else { Hint::None }, missing: false });
        c
    };
    let pk: Vec<Vec<u32>> = (0..k).map(|n| mk(&mut w, rng, n, sizes[n as usize])).collect();
    let sh = mk(&mut w, rng, shared, total);
    let mut pin = 0usize;
    let mut requirements = Vec::new();
    for n in 0..k {
        for c in &pk[n as usize] {
            let vs = next_vs;
            next_vs += 1;
            w.version_sets.insert(vs, VersionSet { name: shared, matches: vec![sh[pin]] });
            pin += 1;
            w.solvables.get_mut(c).unwrap().deps = Deps::Known { requirements: vec![Req::Single(vs)], constrains: vec![] };
        }
        let vs = next_vs;
        next_vs += 1;
        let mut m = pk[n as usize].clone();
        m.sort();
        w.version_sets.insert(vs, VersionSet { name: n, matches: m });
        requirements.push(Req::Single(vs));
    }
    rng.shuffle(&mut requirements);
    (w, ProblemSpec { requirements, constraints: vec![], soft: vec![] })
}

/// Shared requirement family: several candidates of a hinted package X (one gets installed, the others are encoded
/// eagerly while undecided) and optionally a further package Y require the *same* version set of a package T, whose
/// candidates an installed solvable of K has already constrained away (K's preferred candidate allows none or few of
/// them; its other candidate allows all). Which parent asks for the shared requirement first depends on the order in
/// which the dependency answers arrive.
pub fn shared_requirement(rng: &mut Rng) -> (World, ProblemSpec) {
    let mut w = World::default();
    let mut next_s = 0u32;
    let mut next_vs = 0u32;
    let mut mk = |w: &mut World, rng: &mut Rng, name: u32, n: usize, hint: Hint| -> Vec<u32> {
        let c: Vec<u32> = (next_s..next_s + n as u32).collect();
        next_s += n as u32;
        for x in &c {
            w.solvables.insert(*x, Solvable { name, deps: Deps::Known { requirements: vec![], constrains: vec![] } });
        }
        let mut rank = c.clone();
        if rng.chance(1, 3) {
            rng.shuffle(&mut rank);
        }
        w.packages.insert(name, Package { candidates: c.clone(), rank, favored: None, locked: None, excluded: vec![], hint, missing: false });
        c
    };
    let mut vs = |w: &mut World, name: u32, mut m: Vec<u32>| -> u32 {
        m.sort();
        let id = next_vs;
        next_vs += 1;
        w.version_sets.insert(id, VersionSet { name, matches: m });
        id
    };
    let (t_name, k_name, x_name, y_name) = (0u32, 1u32, 2u32, 3u32);
    let nt = rng.range(1, 3);
    let t = mk(&mut w, rng, t_name, nt, Hint::None);
    let hk = if rng.chance(1, 2) { Hint::All } else { Hint::None };
    let k = mk(&mut w, rng, k_name, 2, hk);
    let nx = rng.range(2, 3);
    let hx = if rng.chance(3, 4) { Hint::All } else { Hint::Some(vec![]) };
    let x = mk(&mut w, rng, x_name, nx, hx);
    let hy = if rng.chance(1, 2) { Hint::All } else { Hint::None };
    let y = mk(&mut w, rng, y_name, 1, hy);
    // hints on X: all, or all but the preferred one
    if let Hint::Some(_) = w.packages[&x_name].hint {
        let pref = w.packages[&x_name].rank[0];
        let v: Vec<u32> = x.iter().copied().filter(|c| *c != pref).collect();
        w.packages.get_mut(&x_name).unwrap().hint = Hint::Some(v);
    }
    let shared = vs(&mut w, t_name, t.clone());
    // K's preferred candidate allows none (or only some) of T
    let allowed: Vec<u32> = if rng.chance(2, 3) { vec![] } else { t.iter().copied().filter(|_| rng.chance(1, 3)).collect() };
    let allow = vs(&mut w, t_name, allowed);
    let k_pref = w.packages[&k_name].rank[0];
    w.solvables.get_mut(&k_pref).unwrap().deps = Deps::Known { requirements: vec![], constrains: vec![allow] };
    for c in &x {
        w.solvables.get_mut(c).unwrap().deps = Deps::Known { requirements: vec![Req::Single(shared)], constrains: vec![] };
    }
    if rng.chance(1, 2) {
        w.solvables.get_mut(&y[0]).unwrap().deps = Deps::Known { requirements: vec![Req::Single(shared)], constrains: vec![] };
    }
    let k_any = vs(&mut w, k_name, k.clone());
    let x_any = vs(&mut w, x_name, x.clone());
    let y_any = vs(&mut w, y_name, y.clone());
    let mut requirements = vec![Req::Single(k_any)];
    if rng.chance(1, 2) {
        requirements.push(Req::Single(x_any));
    } else {
        // X (hinted) is not required by the root but by an installed solvable of a further package W, so that its
        // candidates are discovered - and encoded eagerly - in the same pass in which Y's dependencies are fetched
        let wn = 4u32;
        let wc = mk(&mut w, rng, wn, 1, Hint::None);
        w.solvables.get_mut(&wc[0]).unwrap().deps = Deps::Known { requirements: vec![Req::Single(x_any)], constrains: vec![] };
        let w_any = vs(&mut w, wn, wc.clone());
        requirements.push(Req::Single(w_any));
        w.solvables.get_mut(&y[0]).unwrap().deps = Deps::Known { requirements: vec![Req::Single(shared)], constrains: vec![] };
        requirements.push(Req::Single(y_any));
    }
    if rng.chance(1, 2) && !requirements.contains(&Req::Single(y_any)) {
        requirements.push(Req::Single(y_any));
    }
    rng.shuffle(&mut requirements);
    (w, ProblemSpec { requirements, constraints: vec![], soft: vec![] })
}

/// Version-set, union and string ids are opaque 32-bit handles that the solver only ever uses as map keys (unlike name
/// and solvable ids, which index vectors): providers pack information into them (`package << 24 | mask`) or hand out
/// hashes. This spreads them over the whole `u32` range, including values with the top bit set and `u32::MAX`.
pub fn huge_handle_ids(rng: &mut Rng, w: &mut World, problems: &mut [ProblemSpec]) {
    let spread = |rng: &mut Rng, ids: Vec<u32>| -> BTreeMap<u32, u32> {
        let mut used: BTreeSet<u32> = BTreeSet::new();
        let mut m = BTreeMap::new();
        for (k, id) in ids.into_iter().enumerate() {
            let mut t = match rng.below(6) {
                0 => u32::MAX - 200_000 - k as u32,
                1 => (1u32 << 31) + rng.below(1 << 16) as u32,
                2 => (1u32 << 31) - 1 - rng.below(64) as u32,
                3 => ((rng.below(200) as u32) << 24) | rng.below(1 << 12) as u32,
                4 => (rng.next_u64() as u32).min(u32::MAX - 200_000),
                _ => rng.below(512) as u32,
            };
            while !used.insert(t) {
                t = t.wrapping_add(0x9E37_79B9);
            }
            m.insert(id, t);
        }
        m
    };
    let names: BTreeMap<u32, u32> = w.packages.keys().map(|k| (*k, *k)).collect();
    let solv: BTreeMap<u32, u32> = w.solvables.keys().map(|k| (*k, *k)).collect();
    let mv = spread(rng, w.version_sets.keys().copied().collect());
    let mu = spread(rng, w.unions.keys().copied().collect());
    let mut strs: BTreeSet<u32> = BTreeSet::new();
    for p in w.packages.values() {
        for (_, r) in &p.excluded {
            strs.insert(*r);
        }
    }
    for s in w.solvables.values() {
        if let Deps::Unknown(r) = s.deps {
            strs.insert(r);
        }
    }
    let mt = spread(rng, strs.into_iter().collect());
    apply_maps(w, problems, &names, &solv, &mv, &mu, &mt);
}

/// Slice-dependent ranking: for some packages with at least three candidates the provider ranks slices of at least
/// `threshold` candidates by another permutation than shorter ones.
pub fn slice_dependent_ranking(rng: &mut Rng, w: &mut World) {
    let names: Vec<u32> = w.packages.keys().copied().collect();
    for n in names {
        let p = &w.packages[&n];
        if p.missing || p.candidates.len() < 3 || !rng.chance(1, 2) {
            continue;
        }
        let mut alt = p.rank.clone();
        rng.shuffle(&mut alt);
        let t = rng.range(2, p.candidates.len());
        w.alt_rank.insert(n, (t, alt));
    }
}

/// Wide fan-out family: a solvable (the root, or a single solvable the root requires) with `width` requirements on
/// distinct packages (futures combinators and request budgets change behaviour beyond a few dozen members), plus
/// optionally one package with many hinted candidates and a union with many members.
pub fn gen_wide(rng: &mut Rng, width: usize) -> (World, ProblemSpec) {
    let mut w = World::default();
    let mut next_s = 0u32;
    let mut next_vs = 0u32;
    let mut reqs: Vec<Req> = Vec::new();
    let hint_all = rng.chance(1, 2);
    for n in 0..width as u32 {
        let k = if rng.chance(1, 12) { rng.range(31, 45) } else { rng.range(1, 3) };
        let cands: Vec<u32> = (next_s..next_s + k as u32).collect();
        next_s += k as u32;
        for c in &cands {
            w.solvables.insert(*c, Solvable { name: n, deps: Deps::Known { requirements: vec![], constrains: vec![] } });
        }
        let mut rank = cands.clone();
        rng.shuffle(&mut rank);
        w.packages.insert(
            n,
            Package {
                candidates: cands.clone(),
                rank,
                favored: None,
                locked: None,
                excluded: vec![],
                hint: if hint_all || rng.chance(1, 4) { Hint::All } else { Hint::None },
                missing: false,
            },
        );
        let mut m = cands.clone();
        if m.len() > 1 && rng.chance(1, 3) {
            m.remove(rng.below(m.len()));
        }
        m.sort();
        w.version_sets.insert(next_vs, VersionSet { name: n, matches: m });
        reqs.push(Req::Single(next_vs));
        next_vs += 1;
    }
    // some cross requirements so that dependency answers introduce further work
    let all: Vec<u32> = w.solvables.keys().copied().collect();
    for s in &all {
        if rng.chance(1, 5) {
            let target = rng.below(width) as u32;
            let vs = next_vs;
            next_vs += 1;
            let m = {
                let mut m = w.packages[&target].candidates.clone();
                m.sort();
                m
            };
            w.version_sets.insert(vs, VersionSet { name: target, matches: m });
            if let Deps::Known { requirements, .. } = &mut w.solvables.get_mut(s).unwrap().deps {
                requirements.push(Req::Single(vs));
            }
        }
    }
    // hint fan: a hinted package whose (mostly never selected) candidates each need many fresh packages
    if rng.chance(1, 3) {
        let fan_name = width as u32 + 1000;
        let k = rng.range(2, 3);
        let fan_cands: Vec<u32> = (next_s..next_s + k as u32).collect();
        next_s += k as u32;
        let mut fresh_name = width as u32 + 2000;
        for c in &fan_cands {
            let mut requirements = Vec::new();
            for _ in 0..rng.range(60, 110) {
                let s = next_s;
                next_s += 1;
                w.solvables.insert(s, Solvable { name: fresh_name, deps: Deps::Known { requirements: vec![], constrains: vec![] } });
                w.packages.insert(fresh_name, Package { candidates: vec![s], rank: vec![s], favored: None, locked: None, excluded: vec![], hint: Hint::None, missing: false });
                w.version_sets.insert(next_vs, VersionSet { name: fresh_name, matches: vec![s] });
                requirements.push(Req::Single(next_vs));
                next_vs += 1;
                fresh_name += 1;
            }
            w.solvables.insert(*c, Solvable { name: fan_name, deps: Deps::Known { requirements, constrains: vec![] } });
        }
        w.packages.insert(fan_name, Package { candidates: fan_cands.clone(), rank: fan_cands.clone(), favored: None, locked: None, excluded: vec![], hint: Hint::All, missing: false });
        let mut m = fan_cands.clone();
        m.sort();
        w.version_sets.insert(next_vs, VersionSet { name: fan_name, matches: m });
        reqs.push(Req::Single(next_vs));
        next_vs += 1;
    }
    // constraint fan: one solvable (or the root) with 17..40 constrains entries, most of them on packages that nothing
    // requires (their candidates are needed only to build the constrains clauses)
    let mut root_constraints: Vec<u32> = Vec::new();
    if rng.chance(1, 3) {
        let k = rng.range(17, 40);
        let mut cons = Vec::new();
        let mut fresh_name = width as u32 + 5000;
        for _ in 0..k {
            let (name, cands) = if rng.chance(1, 5) {
                let n = rng.below(width) as u32;
                (n, w.packages[&n].candidates.clone())
            } else {
                let n = fresh_name;
                fresh_name += 1;
                let c: Vec<u32> = (next_s..next_s + 2).collect();
                next_s += 2;
                for x in &c {
                    w.solvables.insert(*x, Solvable { name: n, deps: Deps::Known { requirements: vec![], constrains: vec![] } });
                }
                w.packages.insert(n, Package { candidates: c.clone(), rank: c.clone(), favored: None, locked: None, excluded: vec![], hint: Hint::None, missing: false });
                (n, c)
            };
            // allow everything but (at most) one candidate, so that the constraint rarely bites
            let mut m = cands.clone();
            if m.len() > 1 && rng.chance(1, 2) {
                m.remove(rng.below(m.len()));
            }
            m.sort();
            w.version_sets.insert(next_vs, VersionSet { name, matches: m });
            cons.push(next_vs);
            next_vs += 1;
        }
        if rng.chance(1, 2) {
            root_constraints = cons;
        } else {
            // on the first-ranked candidate of a root-required package
            let target = rng.below(width) as u32;
            let first = w.packages[&target].rank[0];
            if let Deps::Known { constrains, .. } = &mut w.solvables.get_mut(&first).unwrap().deps {
                constrains.extend(cons);
            }
        }
    }
    // a union with many members
    if rng.chance(1, 3) && width >= 34 {
        let k = rng.range(31, width.min(45));
        let members: Vec<u32> = (0..k as u32).collect(); // the first k root version sets
        w.unions.insert(0, members);
        reqs.retain(|r| !matches!(r, Req::Single(v) if (*v as usize) < k));
        reqs.insert(rng.below(reqs.len() + 1), Req::Union(0));
    }
    let problem = if rng.chance(1, 2) {
        ProblemSpec { requirements: reqs, constraints: root_constraints, soft: vec![] }
    } else {
        // behind one solvable
        let name = width as u32 + 500;
        let s = next_s;
        w.solvables.insert(s, Solvable { name, deps: Deps::Known { requirements: reqs, constrains: root_constraints } });
        w.packages.insert(name, Package { candidates: vec![s], rank: vec![s], favored: None, locked: None, excluded: vec![], hint: Hint::None, missing: false });
        w.version_sets.insert(next_vs, VersionSet { name, matches: vec![s] });
        ProblemSpec { requirements: vec![Req::Single(next_vs)], constraints: vec![], soft: vec![] }
    };
    (w, problem)
}

/// Deep chain family: package i requires package i+1 (a few candidates each); recursion depth in the subject must
/// not grow with the length of a dependency chain.
pub fn gen_chain(rng: &mut Rng, len: usize) -> (World, ProblemSpec) {
    gen_chain_kind(rng, len, false)
}

/// `cheap`: only the variants whose solve is linear in the length (no dead end, one candidate per link mostly).
pub fn gen_chain_kind(rng: &mut Rng, len: usize, cheap: bool) -> (World, ProblemSpec) {
    let mut w = World::default();
    let mut next_s = 0u32;
    // variants: every package hinted (the whole chain is encoded in one pass: thousands of task results in one encode
    // call), more candidates per link, and a dead end (the last link needs a package without candidates, so that the
    // conflict is found after a propagation round of `len` forced assignments)
    let hint_all = rng.chance(1, if cheap { 2 } else { 3 });
    let fat = rng.chance(1, 3) && !cheap;
    let dead_end = rng.chance(1, 4) && !cheap;
    // the expensive variants stay shorter: a dead end below a chain of multi-candidate links makes the solver climb back
    // link by link, which is legitimate work that grows with the cube of the length (every newly tried candidate restarts the search, and every restart re-decides the whole chain)
    let len = if fat && dead_end { len.min(300) } else if dead_end { len.min(600) } else if fat { len.min(1300) } else { len };
    for n in 0..len as u32 {
        let k = if fat { rng.range(2, 3) as u32 } else if rng.chance(1, 10) { 2 } else { 1 };
        let cands: Vec<u32> = (next_s..next_s + k).collect();
        next_s += k;
        for c in &cands {
            let requirements = if (n as usize) + 1 < len {
                vec![Req::Single(n + 1)]
            } else if dead_end {
                vec![Req::Single(len as u32)]
            } else {
                vec![]
            };
            w.solvables.insert(*c, Solvable { name: n, deps: Deps::Known { requirements, constrains: vec![] } });
        }
        w.packages.insert(n, Package { candidates: cands.clone(), rank: cands.clone(), favored: None, locked: None, excluded: vec![], hint: if hint_all { Hint::All } else { Hint::None }, missing: false });
        w.version_sets.insert(n, VersionSet { name: n, matches: cands });
    }
    if dead_end {
        let n = len as u32;
        w.packages.insert(n, Package { candidates: vec![], rank: vec![], favored: None, locked: None, excluded: vec![], hint: Hint::None, missing: rng.chance(1, 2) });
        w.version_sets.insert(n, VersionSet { name: n, matches: vec![] });
    }
    (w, ProblemSpec { requirements: vec![Req::Single(0)], constraints: vec![], soft: vec![] })
}

/// Ladder family (a classic shape for clause-learning solvers): `rungs` two-way choices x_i | e_i at the root; both
/// sides of rung i rule out the marker packages s_i and t_i through constrains; the last rung needs one of the t's
/// (x side) resp. one of the s's (e side). Unsatisfiable; every learnt clause is derived from almost all earlier ones,
/// so anything that walks the derivation of learnt clauses once per path instead of once per clause explodes. All
/// packages have one candidate; hints on most seeds, so that everything is encoded up front.
pub fn ladder(rng: &mut Rng, rungs: usize) -> (World, ProblemSpec) {
    let mut w = World::default();
    let mut next_vs = 0u32;
    let mut next_union = 0u32;
    let hint = if rng.chance(4, 5) { Hint::All } else { Hint::None };
    // package ids: x_i = 4i, e_i = 4i+1, s_i = 4i+2, t_i = 4i+3 ; the single solvable of a package has the same id
    let mut pkg = |w: &mut World, n: u32| {
        w.solvables.insert(n, Solvable { name: n, deps: Deps::Known { requirements: vec![], constrains: vec![] } });
        w.packages.insert(n, Package { candidates: vec![n], rank: vec![n], favored: None, locked: None, excluded: vec![], hint: hint.clone(), missing: false });
    };
    for i in 0..rungs as u32 {
        for j in 0..4 {
            pkg(&mut w, 4 * i + j);
        }
    }
    let mut vs = |w: &mut World, name: u32, any: bool| -> u32 {
        let id = next_vs;
        next_vs += 1;
        w.version_sets.insert(id, VersionSet { name, matches: if any { vec![name] } else { vec![] } });
        id
    };
    let mut requirements = Vec::new();
    let last = rungs as u32 - 1;
    for i in 0..rungs as u32 {
        let (x, e, s_, t) = (4 * i, 4 * i + 1, 4 * i + 2, 4 * i + 3);
        if i < last {
            for side in [x, e] {
                let no_s = vs(&mut w, s_, false);
                let no_t = vs(&mut w, t, false);
                w.solvables.get_mut(&side).unwrap().deps = Deps::Known { requirements: vec![], constrains: vec![no_s, no_t] };
            }
        } else {
            let ts: Vec<u32> = (0..last).map(|k| vs(&mut w, 4 * k + 3, true)).collect();
            let ss: Vec<u32> = (0..last).map(|k| vs(&mut w, 4 * k + 2, true)).collect();
            let mut req_of = |w: &mut World, members: Vec<u32>| -> Req {
                if members.len() == 1 {
                    Req::Single(members[0])
                } else {
                    let id = next_union;
                    next_union += 1;
                    w.unions.insert(id, members);
                    Req::Union(id)
                }
            };
            let rx = req_of(&mut w, ts);
            let re = req_of(&mut w, ss);
            w.solvables.get_mut(&x).unwrap().deps = Deps::Known { requirements: vec![rx], constrains: vec![] };
            w.solvables.get_mut(&e).unwrap().deps = Deps::Known { requirements: vec![re], constrains: vec![] };
        }
        let ax = vs(&mut w, x, true);
        let ae = vs(&mut w, e, true);
        let id = next_union;
        next_union += 1;
        w.unions.insert(id, vec![ax, ae]);
        requirements.push(Req::Union(id));
    }
    (w, ProblemSpec { requirements, constraints: vec![], soft: vec![] })
}


/// Adds `k` soft requirements, each on its own fresh package with one dependency on another fresh package.
pub fn add_many_soft(rng: &mut Rng, w: &mut World, p: &mut ProblemSpec, k: usize) {
    let mut next_name = w.packages.keys().max().map(|m| m + 1).unwrap_or(0);
    let mut next_s = w.solvables.keys().max().map(|m| m + 1).unwrap_or(0);
    let mut next_vs = w.version_sets.keys().max().map(|m| m + 1).unwrap_or(0);
    for _ in 0..k {
        let (qn, rn) = (next_name, next_name + 1);
        next_name += 2;
        let (qs, rs) = (next_s, next_s + 1);
        next_s += 2;
        let vs = next_vs;
        next_vs += 1;
        w.version_sets.insert(vs, VersionSet { name: rn, matches: vec![rs] });
        w.solvables.insert(rs, Solvable { name: rn, deps: Deps::Known { requirements: vec![], constrains: vec![] } });
        w.packages.insert(rn, Package { candidates: vec![rs], rank: vec![rs], favored: None, locked: None, excluded: vec![], hint: Hint::None, missing: false });
        let requirements = if rng.chance(3, 4) { vec![Req::Single(vs)] } else { vec![] };
        w.solvables.insert(qs, Solvable { name: qn, deps: Deps::Known { requirements, constrains: vec![] } });
        w.packages.insert(qn, Package { candidates: vec![qs], rank: vec![qs], favored: None, locked: None, excluded: vec![], hint: Hint::None, missing: false });
        p.soft.push(qs);
    }
}
