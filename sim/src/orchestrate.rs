//! Orchestrator: runs a property's batch in worker *processes* (both build profiles), watches for
//! hard crashes and hangs, minimises and replays violations, applies the known-findings protocol and
//! writes the evidence file.

use crate::known;
use crate::minimise::minimise;
use crate::prng::{fnv, mix};
use crate::props::{Property, Tier, Verdict};
use crate::run::Scenario;
use serde::{Deserialize, Serialize};
use std::collections::{BTreeMap, BTreeSet};
use std::io::{BufRead, BufReader, Write};
use std::process::{Command, Stdio};
use std::sync::mpsc;
use std::time::{Duration, Instant};

#[derive(Serialize, Deserialize, Default, Clone, Debug)]
pub struct WorkerStats {
    pub seeds: u64,
    pub scenarios: u64,
    pub evaluated: u64,
    pub nontrivial: u64,
    pub skipped_pre: u64,
    pub aborted_other: u64,
    pub inconclusive: u64,
    pub violations: u64,
    #[serde(default)]
    pub key_files: Vec<String>,
    pub faults: BTreeMap<String, u64>,
    pub probes: BTreeMap<String, u64>,
    pub quiescent_points: u64,
    pub max_in_flight: usize,
    #[serde(default)]
    pub max_polls: u64,
    pub virtual_time: u64,
    pub samples: Vec<serde_json::Value>,
    pub determinism_rechecks: u64,
    pub determinism_mismatches: u64,
    #[serde(default)]
    pub probed_runs: u64,
}

#[derive(Serialize, Deserialize, Clone, Debug)]
pub struct ViolationMsg {
    pub index: u64,
    pub seed: u64,
    pub class: String,
    pub detail: String,
    pub scenario: Scenario,
}

#[derive(Serialize, Deserialize, Clone, Debug)]
pub struct ReplayFile {
    pub property: String,
    pub class: String,
    pub detail: String,
    pub seed: u64,
    pub profile: String,
    pub minimised: bool,
    pub scenario: Scenario,
}

pub fn seed_for(batch_seed: u64, prop: &str, i: u64) -> u64 {
    mix(&[batch_seed, fnv(prop), i])
}

pub fn tier_from(s: &str) -> Tier {
    match s {
        "thorough" => Tier::Thorough,
        _ => Tier::Quick,
    }
}

/// Worker: runs indices start, start+step, ... < end. Protocol on stdout (line based):
/// `B <i>` before each seed, `V <json>` per violation (first few), `S <json>` at the end.
pub fn worker(prop: &dyn Property, tier: Tier, batch_seed: u64, start: u64, step: u64, end: u64, max_s: u64) {
    crate::run::set_quiet(true);
    let out = std::io::stdout();
    let mut st = WorkerStats::default();
    let mut keys: BTreeSet<u64> = BTreeSet::new();
    let mut inter: BTreeSet<u64> = BTreeSet::new();
    let t0 = Instant::now();
    let mut i = start;
    let mut reported = 0;
    // sanitizer workers also say which scenario of a seed is in progress, so that a run that kills the
    // process can be named exactly
    let track_scenarios = std::env::var("VERIF_TRACK_SCENARIO").is_ok();
    while i < end {
        if max_s > 0 && t0.elapsed().as_secs() > max_s {
            break;
        }
        {
            let mut o = out.lock();
            let _ = writeln!(o, "B {i}");
            let _ = o.flush();
        }
        let seed = seed_for(batch_seed, prop.id(), i);
        crate::probes::set_on(false);
        let scs = prop.gen(seed, tier);
        st.seeds += 1;
        for (k, sc) in scs.iter().enumerate() {
            st.scenarios += 1;
            if track_scenarios && k > 0 {
                let mut o = out.lock();
                let _ = writeln!(o, "K {k}");
                let _ = o.flush();
            }
            // tracing probes on a sampled subset of runs
            let probed = (i / step) % 8 == 0;
            crate::probes::set_on(probed);
            let _ = crate::probes::take();
            let mut v: Verdict = prop.judge(sc);
            crate::probes::set_on(false);
            if probed {
                st.probed_runs += 1;
                for (k, n) in crate::probes::take() {
                    *v.probes.entry(k).or_insert(0) += n;
                }
            }
            // sampled in-process determinism re-check
            // (not for C06: there a run that is not a function of its scenario IS the violation, and its judge
            // repeats executions itself)
            if (i + k as u64) % 64 == 0 && prop.id() != "C06" {
                let v2 = prop.judge(sc);
                st.determinism_rechecks += 1;
                if v2.key != v.key || v2.summary != v.summary || v2.violation != v.violation {
                    st.determinism_mismatches += 1;
                }
            }
            if v.evaluated {
                st.evaluated += 1;
            }
            if v.skipped_pre {
                st.skipped_pre += 1;
            }
            if v.aborted_other {
                st.aborted_other += 1;
            }
            if v.inconclusive {
                st.inconclusive += 1;
            }
            if v.evaluated && v.nontrivial {
                st.nontrivial += 1;
                keys.insert(v.key);
                if st.samples.len() < 2 && start == 0 {
                    st.samples.push(serde_json::json!({
                        "seed": seed,
                        "scenario": sc,
                        "result": v.summary,
                    }));
                }
            }
            if v.evaluated {
                inter.insert(v.trace_hash ^ sc.world.shape_hash());
            }
            for (f, n) in &v.faults {
                *st.faults.entry(f.to_string()).or_insert(0) += n;
            }
            for (f, n) in &v.probes {
                *st.probes.entry(f.to_string()).or_insert(0) += n;
            }
            st.quiescent_points += v.quiescent_points;
            st.max_in_flight = st.max_in_flight.max(v.max_in_flight);
            st.max_polls = st.max_polls.max(v.max_polls);
            st.virtual_time += v.virtual_time;
            if let Some((class, detail)) = v.violation {
                st.violations += 1;
                if reported < 40 {
                    reported += 1;
                    let msg = ViolationMsg {
                        index: i,
                        seed,
                        class,
                        detail,
                        scenario: sc.clone(),
                    };
                    let mut o = out.lock();
                    let _ = writeln!(o, "V {}", serde_json::to_string(&msg).unwrap());
                    let _ = o.flush();
                }
            }
        }
        i += step;
    }
    // key sets go through binary side files (8 bytes per key); the S line carries only the paths
    let dir = std::env::var("VERIF_TMP").unwrap_or_else(|_| "/tmp".into());
    let kp = format!("{dir}/resolvo-sim-keys-{}-{}.bin", std::process::id(), start);
    let ip = format!("{dir}/resolvo-sim-inter-{}-{}.bin", std::process::id(), start);
    let dump = |path: &str, set: &BTreeSet<u64>| {
        let mut buf = Vec::with_capacity(set.len() * 8);
        for k in set {
            buf.extend_from_slice(&k.to_le_bytes());
        }
        let _ = std::fs::write(path, buf);
    };
    dump(&kp, &keys);
    dump(&ip, &inter);
    st.key_files = vec![kp, ip];
    let mut o = out.lock();
    let _ = writeln!(o, "S {}", serde_json::to_string(&st).unwrap());
    let _ = o.flush();
}

enum Msg {
    Begin(usize, u64),
    Scen(usize, usize),
    Violation(usize, ViolationMsg),
    Stats(usize, WorkerStats),
    Exit(usize, Option<i32>, bool),
}

struct WorkerHandle {
    child: std::process::Child,
    profile: String,
    bin: String,
    start: u64,
    step: u64,
    end: u64,
    last_begin: Option<u64>,
    last_scen: usize,
    stderr_path: Option<String>,
    last_time: Instant,
    done: bool,
}

pub struct CheckConfig {
    pub verif_dir: String,
    pub bins: Vec<(String, String)>, // (profile, path)
    pub jobs: usize,
    pub batch_seed: u64,
    pub runs_override: Option<u64>,
    pub max_s: u64,
    pub per_run_wall_s: u64,
    /// release build of the simulator and of resolvo instrumented with AddressSanitizer (nightly toolchain), if it
    /// could be built: the memory-error oracle of C04, C10, C13, C16 and C20
    pub asan_bin: Option<String>,
}

/// Properties whose batches are also run (a fraction of the seeds) in the AddressSanitizer build. A memory error
/// there kills the worker; it is reported under the property whose batch was running.
pub fn owns_memory_errors(prop: &str) -> bool {
    matches!(prop, "C04" | "C10" | "C13" | "C16" | "C20")
}

fn spawn_worker(bin: &str, prop: &str, tier: &str, cfg: &CheckConfig, start: u64, step: u64, end: u64, idx: usize, tx: &mpsc::Sender<Msg>, stderr_path: Option<&str>) -> std::process::Child {
    // Workers other than the sanitizer ones (which reserve terabytes of address space) run under an address-space limit
    // of 32 GiB - two orders of magnitude above what a batch needs - so that a runaway allocation ends one worker (seen as
    // a hard crash of the seed in progress) instead of inviting the kernel's out-of-memory killer to pick a victim.
    let mut cmd = if stderr_path.is_none() {
        let mut c = Command::new("sh");
        c.args(["-c", "ulimit -v 33554432 2>/dev/null; exec \"$0\" \"$@\"", bin]);
        c
    } else {
        Command::new(bin)
    };
    cmd.args(["worker", prop, tier, &cfg.batch_seed.to_string(), &start.to_string(), &step.to_string(), &end.to_string(), &cfg.max_s.to_string()])
        .stdout(Stdio::piped());
    match stderr_path.and_then(|p| std::fs::File::create(p).ok()) {
        Some(f) => {
            // sanitizer worker: keep the report, name the scenario in progress, and give the instrumented code
            // (larger frames) a larger stack than the 2 MiB the other profiles run on
            cmd.stderr(Stdio::from(f))
                .env("VERIF_TRACK_SCENARIO", "1")
                .env("VERIF_STACK_MB", "32")
                .env("ASAN_OPTIONS", ASAN_OPTIONS);
        }
        None => {
            cmd.stderr(Stdio::null());
        }
    }
    let mut child = cmd
        .spawn()
        .unwrap_or_else(|e| {
            eprintln!("harness error: cannot spawn worker {bin}: {e}");
            std::process::exit(2);
        });
    let stdout = child.stdout.take().unwrap();
    let tx = tx.clone();
    std::thread::spawn(move || {
        let rd = BufReader::new(stdout);
        let mut got_stats = false;
        for line in rd.lines() {
            let Ok(line) = line else { break };
            if let Some(r) = line.strip_prefix("B ") {
                if let Ok(i) = r.trim().parse::<u64>() {
                    let _ = tx.send(Msg::Begin(idx, i));
                }
            } else if let Some(r) = line.strip_prefix("K ") {
                if let Ok(k) = r.trim().parse::<usize>() {
                    let _ = tx.send(Msg::Scen(idx, k));
                }
            } else if let Some(r) = line.strip_prefix("V ") {
                if let Ok(v) = serde_json::from_str::<ViolationMsg>(r) {
                    let _ = tx.send(Msg::Violation(idx, v));
                }
            } else if let Some(r) = line.strip_prefix("S ") {
                if let Ok(s) = serde_json::from_str::<WorkerStats>(r) {
                    got_stats = true;
                    let _ = tx.send(Msg::Stats(idx, s));
                }
            }
        }
        let _ = tx.send(Msg::Exit(idx, None, got_stats));
    });
    child
}

pub const ASAN_OPTIONS: &str = "detect_leaks=0:exitcode=1:abort_on_error=0:halt_on_error=1:malloc_context_size=6";

/// First line of an AddressSanitizer report ("heap-use-after-free", "heap-buffer-overflow", ...), if any.
pub fn asan_kind(stderr_text: &str) -> Option<String> {
    let l = stderr_text.lines().find(|l| l.contains("ERROR: AddressSanitizer"))?;
    let rest = l.split("AddressSanitizer:").nth(1)?.trim();
    Some(rest.split_whitespace().next().unwrap_or("unknown").trim_end_matches(':').to_string())
}

fn write_replay(cfg: &CheckConfig, rf: &ReplayFile, tag: &str) -> String {
    let dir = std::env::var("VERIF_REPLAY_DIR").unwrap_or_else(|_| format!("{}/replays", cfg.verif_dir));
    let _ = std::fs::create_dir_all(&dir);
    let path = format!("{dir}/{}-{}{}.json", rf.property, rf.seed, tag);
    std::fs::write(&path, serde_json::to_string_pretty(rf).unwrap()).expect("write replay");
    path
}

/// Run `<bin> replay <file>` in a fresh process; true iff the stored class recurs (exit code 1).
pub fn replay_in_fresh_process(bin: &str, path: &str) -> bool {
    // an address-dependent C06 violation reproduces statistically, so a few fresh processes are tried there
    let tries = if path.contains("/C06-") { 5 } else { 1 };
    for _ in 0..tries {
        let st = Command::new(bin)
            .args(["replay", path])
            .stdout(Stdio::null())
            .stderr(Stdio::null())
            .status();
        if matches!(st.map(|s| s.code()), Ok(Some(1))) {
            return true;
        }
    }
    false
}

/// One seed in ASAN_SHARE of a batch is repeated in the sanitizer build (which runs about 8 times slower).
pub const ASAN_SHARE: u64 = 16;

pub fn run_check(prop: &dyn Property, tier_s: &str, cfg: &CheckConfig) -> i32 {
    let tier = tier_from(tier_s);
    let t0 = Instant::now();
    let runs = cfg.runs_override.unwrap_or_else(|| prop.runs(tier));
    let known = known::load(&format!("{}/known_findings.json", cfg.verif_dir));
    let (tx, rx) = mpsc::channel::<Msg>();
    let mut workers: Vec<WorkerHandle> = Vec::new();
    let per_profile = (cfg.jobs / cfg.bins.len()).max(1);
    for (profile, bin) in &cfg.bins {
        for k in 0..per_profile {
            let idx = workers.len();
            let child = spawn_worker(bin, prop.id(), tier_s, cfg, k as u64, per_profile as u64, runs, idx, &tx, None);
            workers.push(WorkerHandle {
                child,
                profile: profile.clone(),
                bin: bin.clone(),
                start: k as u64,
                step: per_profile as u64,
                end: runs,
                last_begin: None,
                last_scen: 0,
                stderr_path: None,
                last_time: Instant::now(),
                done: false,
            });
        }
    }
    // memory-error oracle: the first runs/ASAN_SHARE seeds of the batch once more in the AddressSanitizer build
    let asan_runs = if owns_memory_errors(prop.id()) && cfg.asan_bin.is_some() { (runs / ASAN_SHARE).max(1) } else { 0 };
    if asan_runs > 0 {
        let bin = cfg.asan_bin.clone().unwrap();
        let n = (cfg.jobs / 4).max(1);
        let tmp = std::env::var("VERIF_TMP").unwrap_or_else(|_| "/tmp".into());
        for k in 0..n {
            let idx = workers.len();
            let errp = format!("{tmp}/asan-{}-{}-{k}.stderr", prop.id(), std::process::id());
            let child = spawn_worker(&bin, prop.id(), tier_s, cfg, k as u64, n as u64, asan_runs, idx, &tx, Some(&errp));
            workers.push(WorkerHandle {
                child,
                profile: "asan".into(),
                bin: bin.clone(),
                start: k as u64,
                step: n as u64,
                end: asan_runs,
                last_begin: None,
                last_scen: 0,
                stderr_path: Some(errp),
                last_time: Instant::now(),
                done: false,
            });
        }
    }
    let mut total = WorkerStats::default();
    let mut per_profile_runs: BTreeMap<String, u64> = BTreeMap::new();
    let mut keys: std::collections::HashSet<u64> = Default::default();
    let mut inter: std::collections::HashSet<u64> = Default::default();
    let mut violations: Vec<(String, ViolationMsg)> = Vec::new();
    let mut hard_crashes: Vec<(String, u64, String)> = Vec::new();
    // (seed index, scenario index within the seed, sanitizer report) of runs that died in the sanitizer build
    let mut memory_errors: Vec<(u64, usize, String)> = Vec::new();
    let mut active = workers.len();
    let mut harness_panics = 0u32;
    while active > 0 {
        match rx.recv_timeout(Duration::from_millis(500)) {
            Ok(Msg::Begin(i, n)) => {
                workers[i].last_begin = Some(n);
                workers[i].last_scen = 0;
                workers[i].last_time = Instant::now();
            }
            Ok(Msg::Scen(i, k)) => {
                workers[i].last_scen = k;
                workers[i].last_time = Instant::now();
            }
            Ok(Msg::Violation(i, v)) => {
                workers[i].last_time = Instant::now();
                if violations.len() < 400 {
                    violations.push((workers[i].profile.clone(), v));
                }
            }
            Ok(Msg::Stats(i, s)) => {
                *per_profile_runs.entry(workers[i].profile.clone()).or_insert(0) += s.scenarios;
                total.seeds += s.seeds;
                total.scenarios += s.scenarios;
                total.evaluated += s.evaluated;
                total.nontrivial += s.nontrivial;
                total.skipped_pre += s.skipped_pre;
                total.aborted_other += s.aborted_other;
                total.inconclusive += s.inconclusive;
                total.violations += s.violations;
                total.determinism_rechecks += s.determinism_rechecks;
                total.probed_runs += s.probed_runs;
                total.determinism_mismatches += s.determinism_mismatches;
                total.quiescent_points += s.quiescent_points;
                total.virtual_time += s.virtual_time;
                total.max_in_flight = total.max_in_flight.max(s.max_in_flight);
                total.max_polls = total.max_polls.max(s.max_polls);
                for (fi, path) in s.key_files.iter().enumerate() {
                    if let Ok(bytes) = std::fs::read(path) {
                        let target = if fi == 0 { &mut keys } else { &mut inter };
                        for c in bytes.chunks_exact(8) {
                            target.insert(u64::from_le_bytes(c.try_into().unwrap()));
                        }
                    }
                    let _ = std::fs::remove_file(path);
                }
                for (k, n) in s.faults {
                    *total.faults.entry(k).or_insert(0) += n;
                }
                for (k, n) in s.probes {
                    *total.probes.entry(k).or_insert(0) += n;
                }
                if total.samples.len() < 3 {
                    total.samples.extend(s.samples.into_iter().take(3 - total.samples.len()));
                }
            }
            Ok(Msg::Exit(i, _, got_stats)) => {
                let status = workers[i].child.wait().ok();
                let clean = got_stats && status.map(|s| s.success()).unwrap_or(false);
                if clean || workers[i].done {
                    if !workers[i].done {
                        workers[i].done = true;
                        active -= 1;
                    }
                } else {
                    // hard crash (signal / abort / killed by the watchdog): attribute to the seed in progress
                    let at = workers[i].last_begin.unwrap_or(workers[i].start);
                    let how = match status {
                        Some(s) => format!("{s}"),
                        None => "unknown".into(),
                    };
                    if status.and_then(|s| s.code()) == Some(3) {
                        harness_panics += 1;
                    }
                    let report = workers[i].stderr_path.as_ref().and_then(|p| std::fs::read_to_string(p).ok()).unwrap_or_default();
                    if workers[i].profile == "asan" && asan_kind(&report).is_some() {
                        memory_errors.push((at, workers[i].last_scen, report));
                    } else {
                        hard_crashes.push((workers[i].profile.clone(), at, how));
                    }
                    let (step, runs) = (workers[i].step, workers[i].end);
                    let next = at + step;
                    if next < runs && hard_crashes.len() + memory_errors.len() < 50 {
                        let bin = workers[i].bin.clone();
                        let errp = workers[i].stderr_path.clone();
                        let child = spawn_worker(&bin, prop.id(), tier_s, cfg, next, step, runs, i, &tx, errp.as_deref());
                        workers[i].child = child;
                        workers[i].start = next;
                        workers[i].last_begin = None;
                        workers[i].last_time = Instant::now();
                    } else {
                        workers[i].done = true;
                        active -= 1;
                    }
                }
            }
            Err(mpsc::RecvTimeoutError::Timeout) => {}
            Err(mpsc::RecvTimeoutError::Disconnected) => break,
        }
        // watchdog
        for w in workers.iter_mut() {
            if !w.done && w.last_time.elapsed().as_secs() > cfg.per_run_wall_s {
                let _ = w.child.kill();
                w.last_time = Instant::now();
            }
        }
    }

    // ---- triage of violations
    let self_bin = std::env::current_exe().unwrap().to_string_lossy().to_string();
    let mut exit_code = 0;
    // Undefined behaviour makes a run a function of more than its scenario: when the sanitizer build reported a
    // memory error in this batch, a semantic violation that does not reproduce is explained by it and is not a
    // harness error.
    let ub_seen = !memory_errors.is_empty();
    let mut known_hits: BTreeMap<String, u64> = BTreeMap::new();
    let mut reported_classes: BTreeSet<String> = BTreeSet::new();
    let mut strict_checked: BTreeMap<String, u32> = BTreeMap::new();
    let mut unconfirmed = 0u32;
    violations.sort_by_key(|(_, v)| v.index);
    for (profile, v) in &violations {
        if let Some(k) = known::matches(&known, prop.id(), &v.class, &v.scenario) {
            // the first few matches of every known finding are re-checked on the minimised scenario
            let n = strict_checked.entry(k.what.clone()).or_insert(0);
            if *n < 2 {
                *n += 1;
                let min = minimise(prop, &v.scenario, &v.class, Duration::from_secs(20));
                if known::matches(&known, prop.id(), &v.class, &min).map(|x| &x.what) == Some(&k.what) {
                    *known_hits.entry(k.what.clone()).or_insert(0) += 1;
                    continue;
                }
                // falls through: the minimised scenario no longer satisfies the trigger => new violation
            } else {
                *known_hits.entry(k.what.clone()).or_insert(0) += 1;
                continue;
            }
        }
        if reported_classes.contains(&v.class) {
            continue;
        }
        if reported_classes.len() >= 5 {
            continue;
        }
        // confirm, minimise, replay in a fresh process
        let bin = cfg.bins.iter().find(|(p, _)| p == profile).map(|(_, b)| b.clone()).unwrap_or(self_bin.clone());
        let mut confirm = prop.judge(&v.scenario).violation.map(|(c, _)| c);
        if prop.id() == "C06" {
            for _ in 0..4 {
                if confirm.as_deref() == Some(&v.class) {
                    break;
                }
                confirm = prop.judge(&v.scenario).violation.map(|(c, _)| c);
            }
        }
        if profile_of_self(cfg, &self_bin) == *profile && confirm.as_deref() != Some(&v.class) {
            if prop.id() == "C06" {
                // an output that depends on allocation addresses recurs only statistically; try the next candidate
                unconfirmed += 1;
                continue;
            }
            if ub_seen {
                eprintln!("note: violation {} at seed {} does not reproduce in-process (memory errors were reported in this batch)", v.class, v.seed);
                continue;
            }
            eprintln!("harness error: violation {} at seed {} does not reproduce in-process (got {:?})", v.class, v.seed, confirm);
            exit_code = exit_code.max(2);
            continue;
        }
        let min = if profile_of_self(cfg, &self_bin) == *profile {
            minimise(prop, &v.scenario, &v.class, Duration::from_secs(if tier == Tier::Quick { 30 } else { 90 }))
        } else {
            // minimise with the binary of the profile that found it
            minimise_in_subprocess(&bin, cfg, prop.id(), v).unwrap_or_else(|| v.scenario.clone())
        };
        let detail = if profile_of_self(cfg, &self_bin) == *profile {
            prop.judge(&min).violation.map(|(_, d)| d).unwrap_or(v.detail.clone())
        } else {
            v.detail.clone()
        };
        if let Some(k) = known::matches(&known, prop.id(), &v.class, &min) {
            *known_hits.entry(k.what.clone()).or_insert(0) += 1;
            continue;
        }
        let rf = ReplayFile {
            property: prop.id().to_string(),
            class: v.class.clone(),
            detail,
            seed: v.seed,
            profile: profile.clone(),
            minimised: min != v.scenario,
            scenario: min,
        };
        let path = write_replay(cfg, &rf, "");
        if !replay_in_fresh_process(&bin, &path) {
            if prop.id() == "C06" {
                unconfirmed += 1;
                let _ = std::fs::remove_file(&path);
                continue;
            }
            if ub_seen {
                eprintln!("note: replay {path} does not reproduce in a fresh process (memory errors were reported in this batch)");
                let _ = std::fs::remove_file(&path);
                continue;
            }
            eprintln!("harness error: replay {path} does not reproduce in a fresh process");
            exit_code = exit_code.max(2);
            continue;
        }
        reported_classes.insert(v.class.clone());
        println!("VIOLATION property={} replay={}", prop.id(), path);
        println!("  class={} profile={} seed={}", rf.class, rf.profile, rf.seed);
        println!("  {}", rf.detail.lines().next().unwrap_or(""));
        exit_code = exit_code.max(1);
    }
    // hard crashes are C04's business; elsewhere they are counted as aborted_other
    if !hard_crashes.is_empty() {
        for (profile, idx, how) in &hard_crashes {
            eprintln!("worker ({profile}) died or hung at index {idx}: {how}");
        }
        // properties whose statement includes termination own a run that kills or hangs its worker process
        if matches!(prop.id(), "C04" | "C10" | "C13") {
            let (profile, idx, how) = &hard_crashes[0];
            let seed = seed_for(cfg.batch_seed, prop.id(), *idx);
            if let Some(sc) = prop.gen(seed, tier).into_iter().next() {
                let rf = ReplayFile {
                    property: prop.id().into(),
                    class: "hard-crash".into(),
                    detail: format!("worker process died or hung ({how}) while running this scenario"),
                    seed,
                    profile: profile.clone(),
                    minimised: false,
                    scenario: sc,
                };
                let path = write_replay(cfg, &rf, "-crash");
                println!("VIOLATION property={} replay={}", prop.id(), path);
                exit_code = exit_code.max(1);
            }
        } else {
            total.aborted_other += hard_crashes.len() as u64;
        }
    }
    // memory errors found by the sanitizer build: reported under this property (C04, C10, C13, C16, C20), after the
    // stored scenario has killed a fresh sanitizer process in the same way
    let mut memory_error_kinds: BTreeMap<String, u64> = BTreeMap::new();
    let (mut memory_reproduced, mut memory_unreproduced) = (0u32, 0u32);
    for (idx, k, report) in &memory_errors {
        let kind = asan_kind(report).unwrap_or_else(|| "unknown".into());
        *memory_error_kinds.entry(kind.clone()).or_insert(0) += 1;
        let class = format!("memory-error:{kind}");
        if reported_classes.contains(&class) {
            continue;
        }
        let seed = seed_for(cfg.batch_seed, prop.id(), *idx);
        let Some(sc) = prop.gen(seed, tier).into_iter().nth(*k) else { continue };
        let first = report.lines().find(|l| l.contains("ERROR: AddressSanitizer")).unwrap_or("").trim().to_string();
        let frames: Vec<&str> = report.lines().filter(|l| l.trim_start().starts_with('#') && l.contains("resolvo")).take(4).map(|l| l.trim()).collect();
        let rf = ReplayFile {
            property: prop.id().into(),
            class: class.clone(),
            detail: format!("{first} | {}", frames.join(" | ")),
            seed,
            profile: "asan".into(),
            minimised: false,
            scenario: sc,
        };
        let path = write_replay(cfg, &rf, "-mem");
        let bin = cfg.asan_bin.clone().unwrap_or(self_bin.clone());
        if !replay_in_fresh_process(&bin, &path) {
            // whether freed memory is touched can depend on what the worker process ran before; other occurrences are tried
            eprintln!("note: memory error at index {idx}.{k} does not recur when {path} is replayed in a fresh sanitizer process");
            let _ = std::fs::remove_file(&path);
            memory_unreproduced += 1;
            if memory_unreproduced >= 12 {
                break;
            }
            continue;
        }
        memory_reproduced += 1;
        reported_classes.insert(class.clone());
        println!("VIOLATION property={} replay={}", prop.id(), path);
        println!("  class={class} profile=asan seed={seed}");
        println!("  {}", rf.detail);
        exit_code = exit_code.max(1);
    }
    if memory_unreproduced > 0 && memory_reproduced == 0 {
        eprintln!("harness error: {} memory errors were reported by sanitizer workers but none recurs from its replay file", memory_errors.len());
        exit_code = exit_code.max(2);
    }
    let mut cross_process_compared = 0u64;
    if prop.id() == "C06" {
        let m = runs.min(if tier == Tier::Quick { 20_000 } else { 200_000 });
        let (n, div) = cross_process_compare(cfg, prop.id(), tier_s, m);
        cross_process_compared = n;
        *total.faults.entry("process_hash_keys".to_string()).or_insert(0) += n;
        if let Some((profile, i, k)) = div {
            let seed = seed_for(cfg.batch_seed, prop.id(), i);
            if let Some(sc) = prop.gen(seed, tier).into_iter().nth(k) {
                let rf = ReplayFile {
                    property: prop.id().into(),
                    class: "process-divergence".into(),
                    detail: "two fresh processes produced different solutions / conflict text for the same problem (std hash keys differ per process)".into(),
                    seed,
                    profile: profile.clone(),
                    minimised: false,
                    scenario: sc,
                };
                let path = write_replay(cfg, &rf, "-proc");
                let bin = if profile == "natural" {
                    std::env::var("VERIF_NATURAL_BIN").unwrap_or(self_bin.clone())
                } else {
                    cfg.bins.iter().find(|(p, _)| *p == profile).map(|(_, b)| b.clone()).unwrap_or(self_bin.clone())
                };
                let outs = observe_in_processes(&bin, &path, 12);
                let distinct: BTreeSet<&String> = outs.iter().collect();
                if distinct.len() > 1 {
                    println!("VIOLATION property={} replay={}", prop.id(), path);
                    println!("  class=process-divergence profile={profile} seed={seed}");
                    exit_code = exit_code.max(1);
                    reported_classes.insert("process-divergence".into());
                } else {
                    unconfirmed += 1;
                    let _ = std::fs::remove_file(&path);
                }
            }
        }
    }
    if unconfirmed > 0 && exit_code == 0 {
        eprintln!("harness error: {unconfirmed} output divergences were observed but none could be reproduced from its replay file");
        exit_code = 2;
    }
    for (what, n) in &known_hits {
        println!("KNOWN-FINDING: property={} {} ({} occurrences in this batch)", prop.id(), what, n);
    }
    if total.determinism_mismatches > 0 && ub_seen && exit_code == 1 {
        eprintln!("note: {} in-process determinism re-checks disagreed (memory errors were reported in this batch)", total.determinism_mismatches);
    } else if total.determinism_mismatches > 0 {
        eprintln!("harness error: {} of {} in-process determinism re-checks disagreed", total.determinism_mismatches, total.determinism_rechecks);
        exit_code = exit_code.max(2);
    }
    if harness_panics > 0 {
        eprintln!("harness error: {harness_panics} worker(s) panicked outside the guarded execution of a scenario (generator or oracle defect)");
        exit_code = exit_code.max(2);
    }
    if total.scenarios == 0 && exit_code == 0 {
        eprintln!("harness error: no scenario was executed");
        exit_code = exit_code.max(2);
    }

    // ---- evidence
    let wall = t0.elapsed().as_secs_f64();
    let unlisted = if exit_code == 1 { reported_classes.len() as i64 } else { 0 };
    let zero_probes: Vec<&String> = total.probes.iter().filter(|(_, n)| **n == 0).map(|(k, _)| k).collect();
    let evidence = serde_json::json!({
        "property_id": prop.id(),
        "tier": if tier == Tier::Quick { "quick" } else { "thorough" },
        "seed": cfg.batch_seed,
        "level": prop.level(),
        "wall_s": wall,
        "violations": unlisted,
        "assumptions": [
            "the provider stub is well-formed by construction (match tables consistent with names, favored/locked/excluded/hinted are candidates, total deterministic sort order, unions have >= 2 members)",
            "a clean batch is evidence over the sampled space, not proof; world sizes are bounded as stated in 'rule'",
            "reference oracle (validity checker, DPLL, first-choice closure) is written from the trait documentation and shares no code with the subject",
        ],
        "coverage": {
            "evaluations": total.evaluated,
            "distinct_nontrivial": keys.len(),
            "rule": prop.rule(),
            "samples": total.samples,
            "scenarios_executed": total.scenarios,
            "seeds": total.seeds,
            "runs_per_hour": if wall > 0.0 { (total.scenarios as f64 / wall * 3600.0) as u64 } else { 0 },
            "seeds_per_hour": if wall > 0.0 { (total.seeds as f64 / wall * 3600.0) as u64 } else { 0 },
            "simulated_time_units": total.virtual_time,
            "faults_fired": total.faults,
            "distinct_interleavings": inter.len(),
            "interleaving_measure": "distinct (world hash, sequence of completed request ids / quiescent points / spurious wakes) pairs among evaluated runs",
            "quiescent_points": total.quiescent_points,
            "max_in_flight": total.max_in_flight,
            "max_cancel_polls_in_one_solve": total.max_polls,
            "poll_budget": 30000,
            "probes": total.probes,
            "probes_note": "tracing-derived probes (learnt_clause, backjump_*, restart_lazy_clause_conflict, analyze_unsolvable, propagation_conflict, lazy_encode_round) are counted on the sampled subset of runs given by probed_runs; the others on every run",
            "probed_runs": total.probed_runs,
            "probe_zero": zero_probes,
            "skipped_precondition": total.skipped_pre,
            "aborted_other": total.aborted_other,
            "inconclusive": total.inconclusive,
            "raw_violations_seen": total.violations,
            "known_finding_hits": known_hits,
            "hard_crashes": hard_crashes.len(),
            "memory_oracle": if asan_runs > 0 {
                serde_json::json!({
                    "build": "simulator + resolvo compiled with AddressSanitizer (nightly toolchain, release profile, debug assertions off)",
                    "seeds_repeated_under_sanitizer": asan_runs,
                    "scenarios_under_sanitizer": per_profile_runs.get("asan").copied().unwrap_or(0),
                    "memory_errors": memory_error_kinds,
                })
            } else if owns_memory_errors(prop.id()) {
                serde_json::json!("sanitizer build not available; memory-error oracle skipped in this run")
            } else {
                serde_json::json!("not part of this property's check")
            },
            "cross_process_pairs_compared": cross_process_compared,
            "profiles": per_profile_runs,
            "determinism_rechecks": total.determinism_rechecks,
            "determinism_mismatches": total.determinism_mismatches,
            "components": {
                "real": ["resolvo::Solver (CDCL, Encoder, SolverCache, watch map, decision tracker)", "resolvo::conflict (graph, graphviz, display_user_friendly)", "resolvo::snapshot", "resolvo::Mapping", "futures::FuturesUnordered / try_join_all", "event-listener", "elsa frozen maps", "petgraph", "serde_json"],
                "stub": ["DependencyProvider/Interner (SimProvider: table-driven world, call log, cancellation fault plan)", "AsyncRuntime (SimRuntime: seeded scheduler; NowOrNeverRuntime from the repo is used for synchronous runs)", "ahash random source (per-run salt stream)"]
            }
        }
    });
    let dir = std::env::var("VERIF_EVIDENCE_DIR").unwrap_or_else(|_| format!("{}/evidence", cfg.verif_dir));
    let _ = std::fs::create_dir_all(&dir);
    let path = format!("{dir}/{}.json", prop.id());
    std::fs::write(&path, serde_json::to_string_pretty(&evidence).unwrap()).expect("write evidence");
    println!(
        "{} {}: {} scenarios ({} evaluated, {} distinct non-trivial, {} skipped, {} aborted-other, {} inconclusive) in {:.1}s; exit {}",
        prop.id(), tier_s, total.scenarios, total.evaluated, keys.len(), total.skipped_pre, total.aborted_other, total.inconclusive, wall, exit_code
    );
    exit_code
}

fn profile_of_self(cfg: &CheckConfig, self_bin: &str) -> String {
    cfg.bins
        .iter()
        .find(|(_, b)| std::fs::canonicalize(b).ok() == std::fs::canonicalize(self_bin).ok())
        .map(|(p, _)| p.clone())
        .unwrap_or_else(|| "release".into())
}

fn minimise_in_subprocess(bin: &str, cfg: &CheckConfig, prop: &str, v: &ViolationMsg) -> Option<Scenario> {
    let dir = format!("{}/replays/tmp", cfg.verif_dir);
    let _ = std::fs::create_dir_all(&dir);
    let inp = format!("{dir}/min-in-{}-{}.json", prop, v.seed);
    let outp = format!("{dir}/min-out-{}-{}.json", prop, v.seed);
    let rf = ReplayFile {
        property: prop.into(),
        class: v.class.clone(),
        detail: v.detail.clone(),
        seed: v.seed,
        profile: String::new(),
        minimised: false,
        scenario: v.scenario.clone(),
    };
    std::fs::write(&inp, serde_json::to_string(&rf).unwrap()).ok()?;
    let _ = Command::new(bin).args(["minimise", &inp, &outp]).stdout(Stdio::null()).stderr(Stdio::null()).status();
    let s = std::fs::read_to_string(&outp).ok()?;
    let _ = std::fs::remove_file(&inp);
    let _ = std::fs::remove_file(&outp);
    let rf: ReplayFile = serde_json::from_str(&s).ok()?;
    Some(rf.scenario)
}


/// Run `<bin> observe <file>` in n fresh processes and collect the printed digests.
pub fn observe_in_processes(bin: &str, path: &str, n: usize) -> Vec<String> {
    let mut out = Vec::new();
    for _ in 0..n {
        if let Ok(o) = Command::new(bin).args(["observe", path]).stderr(Stdio::null()).output() {
            out.push(String::from_utf8_lossy(&o.stdout).trim().to_string());
        }
    }
    out
}

/// C06, "separate processes" half: the std `HashSet`s in conflict.rs are keyed per process and are not
/// behind the salt seam, so the first `m` seeds are additionally observed in two fresh processes per
/// profile and compared line by line. Returns (index, sub-index) of the first divergence.
pub fn cross_process_compare(cfg: &CheckConfig, prop: &str, tier: &str, m: u64) -> (u64, Option<(String, u64, usize)>) {
    let mut compared = 0u64;
    // Prefer the "natural" build (no `--cfg fuzzing`): there ahash's process-wide keys are drawn from the OS
    // per process, as in a shipped binary, so every hash order in the subject differs between the two processes.
    let natural = std::env::var("VERIF_NATURAL_BIN").ok().filter(|p| std::path::Path::new(p).exists());
    let bins: Vec<(String, String)> = match natural {
        Some(p) => vec![("natural".to_string(), p)],
        None => cfg.bins.clone(),
    };
    for (profile, bin) in &bins {
        let chunks = 4u64;
        let per = m.div_ceil(chunks);
        let mut handles = Vec::new();
        for rep in 0..2 {
            for c in 0..chunks {
                let from = c * per;
                let to = ((c + 1) * per).min(m);
                let child = Command::new(bin)
                    .args(["digest", prop, tier, &from.to_string(), &to.to_string()])
                    .env("VERIF_SEED", cfg.batch_seed.to_string())
                    .env("VERIF_DIGEST_OBSERVABLE", "1")
                    .stdout(Stdio::piped())
                    .stderr(Stdio::null())
                    .spawn();
                handles.push((rep, c, child));
            }
        }
        let mut outs: BTreeMap<(u64, u64), String> = BTreeMap::new();
        for (rep, c, child) in handles {
            if let Ok(ch) = child {
                if let Ok(o) = ch.wait_with_output() {
                    outs.insert((rep, c), String::from_utf8_lossy(&o.stdout).to_string());
                }
            }
        }
        for c in 0..chunks {
            let a = outs.get(&(0, c)).cloned().unwrap_or_default();
            let b = outs.get(&(1, c)).cloned().unwrap_or_default();
            for (la, lb) in a.lines().zip(b.lines()) {
                compared += 1;
                if la != lb {
                    let mut it = la.split_whitespace();
                    let i: u64 = it.next().and_then(|x| x.parse().ok()).unwrap_or(0);
                    let k: usize = it.next().and_then(|x| x.parse().ok()).unwrap_or(0);
                    return (compared, Some((profile.clone(), i, k)));
                }
            }
        }
    }
    (compared, None)
}
