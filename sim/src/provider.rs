//! `SimProvider`: table-driven stub of `DependencyProvider` / `Interner`. It answers from the world
//! tables, logs every call into the simulator's history, suspends on `SimRequest` futures owned by the
//! scheduler (when the method is in the yield mask), and injects cancellation at seeded poll indices.

use crate::core::{Ev, Kind, ReqKey, SimCore};
use crate::world::{Deps, Hint, Req};
use resolvo::{
    Candidates, Dependencies, DependencyProvider, HintDependenciesAvailable, Interner,
    KnownDependencies, NameId, Requirement, SolvableId, SolverCache, StringId, VersionSetId,
    VersionSetUnionId,
};
use std::any::Any;
use std::fmt::Display;
use std::future::Future;
use std::pin::Pin;
use std::rc::Rc;
use std::task::{Context, Poll};

pub fn to_requirement(r: &Req) -> Requirement {
    match r {
        Req::Single(v) => Requirement::Single(VersionSetId(*v)),
        Req::Union(u) => Requirement::Union(VersionSetUnionId(*u)),
    }
}

pub fn from_requirement(r: Requirement) -> Req {
    match r {
        Requirement::Single(v) => Req::Single(v.0),
        Requirement::Union(u) => Req::Union(u.0),
    }
}

#[derive(Clone)]
pub struct SimProvider {
    pub core: Rc<SimCore>,
}

/// A request in the hands of the scheduler.
struct SimRequest {
    core: Rc<SimCore>,
    rid: u64,
    kind: Kind,
    key: Option<ReqKey>,
    registered: bool,
    finished: bool,
}

impl Future for SimRequest {
    type Output = ();
    fn poll(mut self: Pin<&mut Self>, cx: &mut Context<'_>) -> Poll<()> {
        if !self.registered {
            self.registered = true;
            let key = self.key.take().unwrap();
            self.core
                .register(self.rid, self.kind, key, cx.waker().clone());
            return Poll::Pending;
        }
        let mut p = self.core.pending.borrow_mut();
        let idx = p
            .iter()
            .position(|x| x.rid == self.rid)
            .expect("request vanished from table");
        if p[idx].done {
            p.remove(idx);
            drop(p);
            self.finished = true;
            Poll::Ready(())
        } else {
            p[idx].waker = Some(cx.waker().clone());
            Poll::Pending
        }
    }
}

impl Drop for SimRequest {
    fn drop(&mut self) {
        if self.registered && !self.finished {
            let mut p = self.core.pending.borrow_mut();
            if let Some(idx) = p.iter().position(|x| x.rid == self.rid) {
                p.remove(idx);
            }
        }
    }
}

/// Logs Start on creation, Deliver when told, Dropped if destroyed before delivery.
struct CallGuard {
    core: Rc<SimCore>,
    rid: u64,
    delivered: bool,
}

impl CallGuard {
    fn deliver(&mut self) {
        self.delivered = true;
        self.core.log(Ev::Deliver { rid: self.rid });
    }
}

impl Drop for CallGuard {
    fn drop(&mut self) {
        if !self.delivered {
            self.core.log(Ev::Dropped { rid: self.rid });
            self.core.stats.borrow_mut().dropped_in_flight += 1;
        }
    }
}

impl SimProvider {
    pub fn new(core: Rc<SimCore>) -> Self {
        SimProvider { core }
    }

    fn begin(&self, kind: Kind, arg: u32, key: ReqKey) -> (CallGuard, SimRequest) {
        let rid = self.core.next_rid.get();
        self.core.next_rid.set(rid + 1);
        self.core.log(Ev::Start {
            rid,
            kind,
            arg,
            key: key.clone(),
            in_sort: self.core.sort_depth.get() > 0,
        });
        (
            CallGuard {
                core: self.core.clone(),
                rid,
                delivered: false,
            },
            SimRequest {
                core: self.core.clone(),
                rid,
                kind,
                key: Some(key),
                registered: false,
                finished: false,
            },
        )
    }

    pub fn candidates_answer(&self, name: u32) -> Option<Candidates> {
        let p = self.core.world.packages.get(&name)?;
        if p.missing {
            return None;
        }
        Some(Candidates {
            candidates: p.candidates.iter().map(|&s| SolvableId(s)).collect(),
            favored: p.favored.map(SolvableId),
            locked: p.locked.map(SolvableId),
            hint_dependencies_available: match &p.hint {
                Hint::None => HintDependenciesAvailable::None,
                Hint::All => HintDependenciesAvailable::All,
                Hint::Some(v) => {
                    HintDependenciesAvailable::Some(v.iter().map(|&s| SolvableId(s)).collect())
                }
            },
            excluded: p
                .excluded
                .iter()
                .map(|&(s, r)| (SolvableId(s), StringId(r)))
                .collect(),
        })
    }

    pub fn dependencies_answer(&self, s: u32) -> Dependencies {
        match &self.core.world.solvables[&s].deps {
            Deps::Unknown(r) => Dependencies::Unknown(StringId(*r)),
            Deps::Known {
                requirements,
                constrains,
            } => Dependencies::Known(KnownDependencies {
                requirements: requirements.iter().map(to_requirement).collect(),
                constrains: constrains.iter().map(|&v| VersionSetId(v)).collect(),
            }),
        }
    }

    /// Re-entrant cache queries issued from inside `sort_candidates`, as real providers do
    /// (e.g. to look at the dependencies of the candidates being sorted). Every answer is compared
    /// with the tables (C20).
    async fn reentrant_queries(&self, cache: &SolverCache<Self>, solvables: &[SolvableId]) {
        let w = &self.core.world;
        let Some(first) = solvables.first() else {
            return;
        };
        let name = w.solvable_name(first.0);
        // 1. candidates of the package being sorted (always cached by now)
        match cache.get_or_cache_candidates(NameId(name)).await {
            Ok(c) => {
                let got: Vec<u32> = c.candidates.iter().map(|s| s.0).collect();
                if got != w.cands(name) {
                    self.core.cache_mismatch.borrow_mut().push(format!(
                        "reentrant get_or_cache_candidates({name}) = {got:?}, tables say {:?}",
                        w.cands(name)
                    ));
                }
            }
            Err(_) => return,
        }
        // 2. availability + dependencies of "cheap" candidates only (what rattler-style providers do)
        for s in solvables.iter().take(3) {
            let avail = cache.are_dependencies_available_for(*s);
            // conda-style providers look at the dependencies of the candidates they compare whether or not these are
            // cheap; here: of every other solvable
            if avail || s.0 % 2 == 0 {
                match cache.get_or_cache_dependencies(*s).await {
                    Ok(d) => {
                        let want = self.dependencies_answer(s.0);
                        if !deps_eq(d, &want) {
                            self.core.cache_mismatch.borrow_mut().push(format!(
                                "reentrant get_or_cache_dependencies({}) differs from tables",
                                s.0
                            ));
                        }
                    }
                    Err(_) => return,
                }
            }
        }
    }
}

/// Marks provider calls that are issued while the wrapped future is being polled as re-entrant.
struct InSort<'a, F> {
    core: &'a SimCore,
    inner: Pin<Box<F>>,
}

impl<F: Future<Output = ()>> Future for InSort<'_, F> {
    type Output = ();
    fn poll(mut self: Pin<&mut Self>, cx: &mut Context<'_>) -> Poll<()> {
        self.core.sort_depth.set(self.core.sort_depth.get() + 1);
        let r = self.inner.as_mut().poll(cx);
        self.core.sort_depth.set(self.core.sort_depth.get() - 1);
        r
    }
}

pub fn deps_eq(a: &Dependencies, b: &Dependencies) -> bool {
    match (a, b) {
        (Dependencies::Unknown(x), Dependencies::Unknown(y)) => x == y,
        (Dependencies::Known(x), Dependencies::Known(y)) => {
            x.requirements == y.requirements && x.constrains == y.constrains
        }
        _ => false,
    }
}

impl Interner for SimProvider {
    fn display_solvable(&self, solvable: SolvableId) -> impl Display + '_ {
        format!("s{}", solvable.0)
    }
    fn display_name(&self, name: NameId) -> impl Display + '_ {
        format!("p{}", name.0)
    }
    fn display_version_set(&self, version_set: VersionSetId) -> impl Display + '_ {
        format!("vs{}", version_set.0)
    }
    fn display_string(&self, string_id: StringId) -> impl Display + '_ {
        format!("reason{}", string_id.0)
    }
    fn version_set_name(&self, version_set: VersionSetId) -> NameId {
        NameId(self.core.world.vs_name(version_set.0))
    }
    fn solvable_name(&self, solvable: SolvableId) -> NameId {
        NameId(self.core.world.solvable_name(solvable.0))
    }
    fn version_sets_in_union(
        &self,
        version_set_union: VersionSetUnionId,
    ) -> impl Iterator<Item = VersionSetId> {
        self.core.world.unions[&version_set_union.0]
            .clone()
            .into_iter()
            .map(VersionSetId)
    }
}

impl DependencyProvider for SimProvider {
    async fn filter_candidates(
        &self,
        candidates: &[SolvableId],
        version_set: VersionSetId,
        inverse: bool,
    ) -> Vec<SolvableId> {
        let key = ReqKey::filter(version_set.0, inverse);
        let suspend = self.core.yields_req(Kind::Filter, &key);
        let (mut guard, req) = self.begin(Kind::Filter, version_set.0, key);
        if suspend {
            req.await;
        }
        let w = &self.core.world;
        let ids: Vec<u32> = candidates.iter().map(|c| c.0).collect();
        let out = w.filter(&ids, version_set.0, inverse).into_iter().map(SolvableId).collect();
        guard.deliver();
        out
    }

    async fn get_candidates(&self, name: NameId) -> Option<Candidates> {
        let key = ReqKey::cand(name.0);
        let suspend = self.core.yields_req(Kind::Cand, &key);
        let (mut guard, req) = self.begin(Kind::Cand, name.0, key);
        if suspend {
            req.await;
        }
        let out = self.candidates_answer(name.0);
        guard.deliver();
        out
    }

    async fn sort_candidates(&self, solver: &SolverCache<Self>, solvables: &mut [SolvableId]) {
        let ids: Vec<u32> = solvables.iter().map(|s| s.0).collect();
        let key = ReqKey::sort(&ids);
        let suspend = self.core.yields_req(Kind::Sort, &key);
        let (mut guard, req) = self.begin(Kind::Sort, 0, key);
        if self.core.reentrant_sort {
            InSort {
                core: &self.core,
                inner: Box::pin(self.reentrant_queries(solver, solvables)),
            }
            .await;
        }
        if suspend {
            req.await;
        }
        // Like a real provider, the ranking policy is looked up once per call, for the package of the slice it is given
        // (the trait hands over the candidates of one package): solvables of another package are not ranked by it.
        let w = &self.core.world;
        let mut ids: Vec<u32> = solvables.iter().map(|s| s.0).collect();
        w.sort_by_rank(&mut ids);
        for (slot, id) in solvables.iter_mut().zip(ids) {
            *slot = SolvableId(id);
        }
        guard.deliver();
    }

    async fn get_dependencies(&self, solvable: SolvableId) -> Dependencies {
        let key = ReqKey::deps(solvable.0);
        let suspend = self.core.yields_req(Kind::Deps, &key);
        let (mut guard, req) = self.begin(Kind::Deps, solvable.0, key);
        if suspend {
            req.await;
        }
        let out = self.dependencies_answer(solvable.0);
        guard.deliver();
        out
    }

    fn should_cancel_with_value(&self) -> Option<Box<dyn Any>> {
        self.core.poll_cancel().map(|t| crate::core::box_token(self.core.token_repr, &t))
    }
}
