use resolvo_sim::orchestrate::{self, CheckConfig, ReplayFile};
use resolvo_sim::props::Tier;
use resolvo_sim::{property, DEFAULT_SEED};
use std::time::Duration;

fn usage() -> ! {
    eprintln!("usage: resolvo-sim check <Cxx> <quick|thorough> | replay <file> | worker ... | minimise <in> <out> | digest <Cxx> <tier> <from> <to> | show <Cxx> <seed-index>");
    std::process::exit(2);
}

fn crate_crash(v: &resolvo_sim::props::Verdict) -> bool {
    v.violation.is_some()
}

fn env_u64(name: &str) -> Option<u64> {
    std::env::var(name).ok().and_then(|s| s.trim().parse().ok())
}

fn main() {
    resolvo_sim::runtime::install_salt_source();
    resolvo_sim::run::install_panic_hook();
    resolvo_sim::probes::install();
    let args: Vec<String> = std::env::args().collect();
    if args.len() < 2 {
        usage();
    }
    match args[1].as_str() {
        "check" => {
            if args.len() < 4 {
                usage();
            }
            let Some(prop) = property(&args[2]) else {
                eprintln!("harness error: unknown property {}", args[2]);
                std::process::exit(2);
            };
            let tier = std::env::var("VERIF_TIER").ok().filter(|s| s == "quick" || s == "thorough").unwrap_or(args[3].clone());
            let tier = if args[3] == "quick" || args[3] == "thorough" { args[3].clone() } else { tier };
            let verif_dir = std::env::var("VERIF_DIR").unwrap_or_else(|_| "/verif".into());
            let bins_env = std::env::var("VERIF_BINS").unwrap_or_else(|_| {
                format!(
                    "release={0}/sim/target/release/resolvo-sim,relda={0}/sim/target/relda/resolvo-sim",
                    verif_dir
                )
            });
            let bins: Vec<(String, String)> = bins_env
                .split(',')
                .filter_map(|s| s.split_once('='))
                .map(|(a, b)| (a.to_string(), b.to_string()))
                .collect();
            let cfg = CheckConfig {
                verif_dir,
                bins,
                jobs: env_u64("VERIF_JOBS").unwrap_or(16) as usize,
                batch_seed: env_u64("VERIF_SEED").unwrap_or(DEFAULT_SEED),
                runs_override: env_u64("VERIF_RUNS"),
                max_s: env_u64("VERIF_MAX_S").unwrap_or(if tier == "quick" { 600 } else { 6 * 3600 }),
                // a worker that shows no progress for this long is killed (hang detection); the thorough tier runs larger
                // worlds, possibly next to other jobs, and gets more slack
                per_run_wall_s: if tier == "quick" { 120 } else { 300 },
                asan_bin: std::env::var("VERIF_ASAN_BIN").ok().filter(|p| std::path::Path::new(p).exists()),
            };
            resolvo_sim::run::set_quiet(true);
            let code = orchestrate::run_check(prop.as_ref(), &tier, &cfg);
            std::process::exit(code);
        }
        "worker" => {
            if args.len() < 9 {
                usage();
            }
            let prop = property(&args[2]).expect("unknown property");
            let tier = orchestrate::tier_from(&args[3]);
            let p = |i: usize| args[i].parse::<u64>().expect("number");
            let (a, b, c, d, e) = (p(4), p(5), p(6), p(7), p(8));
            // Run the batch on a thread with the default stack size of a spawned Rust thread (2 MiB): callers of the
            // library are not guaranteed the 8 MiB of a main thread, and recursion that grows with the input shows here.
            let id = args[2].clone();
            drop(prop);
            let stack_mb = env_u64("VERIF_STACK_MB").unwrap_or(2) as usize;
            let h = std::thread::Builder::new()
                .stack_size(stack_mb << 20)
                .spawn(move || {
                    let prop = property(&id).expect("unknown property");
                    orchestrate::worker(prop.as_ref(), tier, a, b, c, d, e)
                })
                .expect("spawn worker thread");
            if h.join().is_err() {
                // a panic outside the guarded execution of a scenario is a defect of the harness itself (generator,
                // oracle), never a verdict: exit code 3 tells the orchestrator so
                let p = resolvo_sim::run::take_last_panic();
                eprintln!("harness panic in worker: {} at {}:{}", p.msg, p.file, p.line);
                std::process::exit(3);
            }
        }
        "replay" => {
            if args.len() < 3 {
                usage();
            }
            let s = std::fs::read_to_string(&args[2]).unwrap_or_else(|e| {
                eprintln!("harness error: cannot read {}: {e}", args[2]);
                std::process::exit(2);
            });
            let rf: ReplayFile = serde_json::from_str(&s).unwrap_or_else(|e| {
                eprintln!("harness error: cannot parse {}: {e}", args[2]);
                std::process::exit(2);
            });
            let prop = property(&rf.property).expect("unknown property");
            resolvo_sim::run::set_quiet(std::env::var("VERIF_VERBOSE").is_err());
            if rf.class == "process-divergence" {
                // statistical replay: the same scenario observed in several fresh processes
                let me = std::env::current_exe().unwrap();
                let outs = orchestrate::observe_in_processes(&me.to_string_lossy(), &args[2], 12);
                let distinct: std::collections::BTreeSet<&String> = outs.iter().collect();
                if distinct.len() > 1 {
                    println!("VIOLATION property={} replay={}", rf.property, args[2]);
                    println!("  class=process-divergence");
                    println!("  {} fresh processes produced {} different outputs for the same scenario", outs.len(), distinct.len());
                    std::process::exit(1);
                }
                println!("replay: 12 fresh processes agree on this scenario");
                std::process::exit(0);
            }
            if rf.class.starts_with("memory-error:") && std::env::var("VERIF_ASAN_CHILD").is_err() {
                // the stored run killed its sanitizer worker: run it in a fresh child of the sanitizer build and read
                // the report
                let Some(bin) = std::env::var("VERIF_ASAN_BIN").ok().filter(|p| std::path::Path::new(p).exists()) else {
                    eprintln!("harness error: the sanitizer build is not available (VERIF_ASAN_BIN)");
                    std::process::exit(2);
                };
                let out = std::process::Command::new(&bin)
                    .args(["replay", &args[2]])
                    .env("VERIF_ASAN_CHILD", "1")
                    .env("ASAN_OPTIONS", orchestrate::ASAN_OPTIONS)
                    .output()
                    .expect("spawn sanitizer child");
                let err = String::from_utf8_lossy(&out.stderr);
                match orchestrate::asan_kind(&err) {
                    Some(kind) if format!("memory-error:{kind}") == rf.class => {
                        println!("VIOLATION property={} replay={}", rf.property, args[2]);
                        println!("  class={}", rf.class);
                        println!("  {}", err.lines().find(|l| l.contains("ERROR: AddressSanitizer")).unwrap_or("").trim());
                        std::process::exit(1);
                    }
                    Some(kind) => {
                        println!("replay produced a different memory error: {kind} (stored: {})", rf.class);
                        std::process::exit(3);
                    }
                    None => {
                        print!("{}", String::from_utf8_lossy(&out.stdout));
                        println!("replay: no memory error reported by the sanitizer build on this scenario");
                        std::process::exit(if out.status.code() == Some(1) { 3 } else { 0 });
                    }
                }
            }
            if rf.class.starts_with("memory-error:") {
                // sanitizer child: run on a large stack like the sanitizer workers do
                let sc = rf.scenario.clone();
                let id = rf.property.clone();
                let h = std::thread::Builder::new()
                    .stack_size(32 << 20)
                    .spawn(move || {
                        let prop = property(&id).expect("unknown property");
                        // as in a worker: once with the tracing probes (which format what they are shown) and once without
                        resolvo_sim::probes::set_on(true);
                        let _ = prop.judge(&sc);
                        let _ = resolvo_sim::probes::take();
                        resolvo_sim::probes::set_on(false);
                        let v = prop.judge(&sc);
                        println!("replay (sanitizer child): finished without a memory error; result: {}", v.summary);
                    })
                    .expect("spawn");
                let _ = h.join();
                std::process::exit(0);
            }
            // watchdog: a scenario that hangs the process is a violation of its own (hard-crash class)
            {
                let prop_id = rf.property.clone();
                let path = args[2].clone();
                let class = rf.class.clone();
                std::thread::spawn(move || {
                    std::thread::sleep(Duration::from_secs(60));
                    println!("VIOLATION property={prop_id} replay={path}");
                    println!("  class={class}");
                    println!("  the scenario did not finish within 60 s of wall time (hang)");
                    std::process::exit(1);
                });
            }
            let v = prop.judge(&rf.scenario);
            if rf.class == "hard-crash" {
                // the stored run killed or hung its worker; finishing normally means it no longer does
                match crate_crash(&v) {
                    true => {
                        println!("VIOLATION property={} replay={}", rf.property, args[2]);
                        println!("  class=hard-crash (now reported in-process: {:?})", v.violation);
                        std::process::exit(1);
                    }
                    false => {
                        println!("replay: scenario finishes normally now; result: {}", v.summary);
                        std::process::exit(0);
                    }
                }
            }
            match v.violation {
                Some((c, d)) if c == rf.class => {
                    println!("VIOLATION property={} replay={}", rf.property, args[2]);
                    println!("  class={c}");
                    println!("  {d}");
                    std::process::exit(1);
                }
                Some((c, d)) => {
                    println!("replay produced a different violation class: {c} (stored: {})\n  {d}", rf.class);
                    std::process::exit(3);
                }
                None => {
                    println!("replay: property {} holds on this scenario (stored class {}); result: {}", rf.property, rf.class, v.summary);
                    std::process::exit(0);
                }
            }
        }
        "minimise" => {
            if args.len() < 4 {
                usage();
            }
            let s = std::fs::read_to_string(&args[2]).expect("read");
            let mut rf: ReplayFile = serde_json::from_str(&s).expect("parse");
            let prop = property(&rf.property).expect("unknown property");
            resolvo_sim::run::set_quiet(true);
            let min = resolvo_sim::minimise::minimise(prop.as_ref(), &rf.scenario, &rf.class, Duration::from_secs(60));
            rf.minimised = min != rf.scenario;
            rf.scenario = min;
            std::fs::write(&args[3], serde_json::to_string_pretty(&rf).unwrap()).expect("write");
        }
        // hash of everything a user can observe from a scenario, computed in this process (C06 cross-process)
        "observe" => {
            let s = std::fs::read_to_string(&args[2]).expect("read");
            let rf: ReplayFile = serde_json::from_str(&s).expect("parse");
            resolvo_sim::run::set_quiet(true);
            let rec = resolvo_sim::run::execute(&rf.scenario);
            println!("{:016x}", resolvo_sim::run::observable_digest(&rec));
        }
        // per-seed digests of the full event log (determinism self-test)
        "digest" => {
            if args.len() < 6 {
                usage();
            }
            let prop = property(&args[2]).expect("unknown property");
            let tier = orchestrate::tier_from(&args[3]);
            let from: u64 = args[4].parse().unwrap();
            let to: u64 = args[5].parse().unwrap();
            let batch = env_u64("VERIF_SEED").unwrap_or(DEFAULT_SEED);
            resolvo_sim::run::set_quiet(true);
            for i in from..to {
                let seed = orchestrate::seed_for(batch, prop.id(), i);
                for (k, sc) in prop.gen(seed, tier).iter().enumerate() {
                    let rec = resolvo_sim::run::execute(sc);
                    if std::env::var("VERIF_DIGEST_OBSERVABLE").is_ok() {
                        println!("{i} {k} {:016x}", resolvo_sim::run::observable_digest(&rec));
                        continue;
                    }
                    let v = prop.judge(sc);
                    if false && std::env::var("VERIF_DIGEST_OBSERVABLE").is_ok() {
                        println!("{i} {k} {:016x}", resolvo_sim::run::observable_digest(&rec));
                        continue;
                    }
                    println!("{i} {k} {:016x} {:016x} {:?}", resolvo_sim::run::digest(&rec), v.key, v.violation.map(|x| x.0));
                }
            }
        }
        // list runs whose verdict is aborted_other (crashes that belong to another property)
        "scan-aborted" => {
            let prop = property(&args[2]).expect("unknown property");
            let from: u64 = args[3].parse().unwrap();
            let to: u64 = args[4].parse().unwrap();
            let batch = env_u64("VERIF_SEED").unwrap_or(DEFAULT_SEED);
            resolvo_sim::run::set_quiet(true);
            for i in from..to {
                let seed = orchestrate::seed_for(batch, prop.id(), i);
                for (k, sc) in prop.gen(seed, Tier::Quick).iter().enumerate() {
                    let v = prop.judge(sc);
                    if v.aborted_other {
                        println!("{i} {k} {}", v.summary);
                    }
                }
            }
        }
        // wall time of the bare execution vs the full judge for one seed index (harness profiling)
        "time" => {
            let prop = property(&args[2]).expect("unknown property");
            let i: u64 = args[3].parse().unwrap();
            let batch = env_u64("VERIF_SEED").unwrap_or(DEFAULT_SEED);
            let seed = orchestrate::seed_for(batch, prop.id(), i);
            resolvo_sim::run::set_quiet(true);
            for sc in prop.gen(seed, Tier::Quick) {
                let t = std::time::Instant::now();
                let rec = resolvo_sim::run::execute(&sc);
                let t_exec = t.elapsed();
                let t = std::time::Instant::now();
                let v = prop.judge(&sc);
                println!("solvables={} exec={:?} judge={:?} polls={} result={}", sc.world.n_solvables(), t_exec, t.elapsed(), rec.stats.cancel_polls, &v.summary[..v.summary.len().min(60)]);
            }
        }
        "show" => {
            if args.len() < 4 {
                usage();
            }
            let prop = property(&args[2]).expect("unknown property");
            let i: u64 = args[3].parse().unwrap();
            let tier = if args.get(4).map(|s| s.as_str()) == Some("thorough") { Tier::Thorough } else { Tier::Quick };
            let batch = env_u64("VERIF_SEED").unwrap_or(DEFAULT_SEED);
            let seed = orchestrate::seed_for(batch, prop.id(), i);
            for sc in prop.gen(seed, tier) {
                println!("{}", serde_json::to_string_pretty(&sc).unwrap());
                let v = prop.judge(&sc);
                println!("=> {} | violation: {:?}", v.summary, v.violation);
            }
        }
        _ => usage(),
    }
}
