//! "Rare condition hit" probes taken from resolvo's own `tracing` events through a minimal counting
//! subscriber (an existing seam of the subject). Enabled on a sampled subset of runs only, because
//! formatting the events costs time. Probing never influences the subject's behaviour.

use std::cell::{Cell, RefCell};
use std::collections::BTreeMap;
use std::fmt::Write;
use tracing_core::field::{Field, Visit};
use tracing_core::span::{Attributes, Id, Record};
use tracing_core::subscriber::Interest;
use tracing_core::{Event, Level, Metadata, Subscriber};

thread_local! {
    static ON: Cell<bool> = const { Cell::new(false) };
    /// the run in progress wants a subscriber that is enabled at every level (Scenario::trace_subscriber)
    static ALL_LEVELS: Cell<bool> = const { Cell::new(false) };
    static COUNTS: RefCell<BTreeMap<&'static str, u64>> = const { RefCell::new(BTreeMap::new()) };
}

pub fn set_on(on: bool) {
    ON.with(|c| c.set(on));
}

/// A subscriber that enables every level, as an application with `RUST_LOG=trace` has: the arguments of every
/// `tracing` macro in the subject are then evaluated. Returns the previous setting.
pub fn set_all_levels(on: bool) -> bool {
    ALL_LEVELS.with(|c| c.replace(on))
}

fn all_levels() -> bool {
    ALL_LEVELS.with(|c| c.get())
}

pub fn is_on() -> bool {
    ON.with(|c| c.get())
}

/// `VERIF_TRACE=1` (debugging aid for `replay` / `show`): print every tracing event of the subject to stderr.
fn trace_all() -> bool {
    static T: std::sync::OnceLock<bool> = std::sync::OnceLock::new();
    *T.get_or_init(|| std::env::var("VERIF_TRACE").is_ok())
}

pub fn take() -> BTreeMap<&'static str, u64> {
    COUNTS.with(|c| std::mem::take(&mut *c.borrow_mut()))
}

fn bump(k: &'static str) {
    COUNTS.with(|c| *c.borrow_mut().entry(k).or_insert(0) += 1);
}

struct Msg(String);

impl Visit for Msg {
    fn record_debug(&mut self, field: &Field, value: &dyn std::fmt::Debug) {
        if field.name() == "message" && self.0.is_empty() {
            let _ = write!(self.0, "{value:?}");
        }
    }
}

struct Probe;

impl Subscriber for Probe {
    fn register_callsite(&self, meta: &'static Metadata<'static>) -> Interest {
        if meta.target().starts_with("resolvo") {
            Interest::sometimes()
        } else {
            Interest::never()
        }
    }
    fn enabled(&self, meta: &Metadata<'_>) -> bool {
        meta.is_event() && (trace_all() || all_levels() || (is_on() && *meta.level() <= Level::DEBUG))
    }
    fn new_span(&self, _: &Attributes<'_>) -> Id {
        Id::from_u64(1)
    }
    fn record(&self, _: &Id, _: &Record<'_>) {}
    fn record_follows_from(&self, _: &Id, _: &Id) {}
    fn event(&self, event: &Event<'_>) {
        if !trace_all() && !is_on() {
            // enabled only because the run asked for an all-levels subscriber: format the event like a real
            // subscriber would, count nothing
            let mut m = Msg(String::new());
            event.record(&mut m);
            return;
        }
        if *event.metadata().level() > Level::DEBUG && !trace_all() {
            let mut m = Msg(String::new());
            event.record(&mut m);
            return;
        }
        let mut m = Msg(String::new());
        event.record(&mut m);
        let s = m.0.as_str();
        if trace_all() {
            eprintln!("[{}] {s}", event.metadata().level());
            if !is_on() {
                return;
            }
        }
        if s.starts_with("│├ Learnt disjunction") {
            bump("learnt_clause");
        } else if let Some(rest) = s.strip_prefix("│└ Backtracked from ") {
            let mut it = rest.split(" -> ");
            if let (Some(a), Some(b)) = (it.next(), it.next()) {
                if let (Ok(a), Ok(b)) = (a.trim().parse::<i64>(), b.trim().parse::<i64>()) {
                    if a - b > 1 {
                        bump("backjump_multi_level");
                    } else {
                        bump("backjump_one_level");
                    }
                }
            }
        } else if s.contains("introduces a conflict which invalidates the partial solution") {
            bump("restart_lazy_clause_conflict");
        } else if s.starts_with("=== ANALYZE UNSOLVABLE") {
            bump("analyze_unsolvable");
        } else if s.starts_with("├┬ Propagation conflicted") {
            bump("propagation_conflict");
        } else if s.starts_with("==== Found newly selected solvables") {
            bump("lazy_encode_round");
        }
    }
    fn enter(&self, _: &Id) {}
    fn exit(&self, _: &Id) {}
}

pub fn install() {
    let _ = tracing_core::dispatcher::set_global_default(tracing_core::Dispatch::new(Probe));
}
