//! Reference semantics, written from the documentation of `DependencyProvider` / `Problem` and
//! independent of resolvo's encoder: a validity checker, a small complete DPLL, and the
//! first-choice closure.

use crate::world::{ProblemSpec, Req, World};
use std::collections::{BTreeMap, BTreeSet};

/// Every rule of C01 evaluated directly on the tables. Returns the list of broken rules (empty = valid).
/// `soft_named`: solvables named directly as soft requirements (the only ones exempt from their own
/// package's lock / exclusion list).
pub fn validity_errors(w: &World, p: &ProblemSpec, sol: &[u32]) -> Vec<(&'static str, String)> {
    let mut errs = Vec::new();
    let set: BTreeSet<u32> = sol.iter().copied().collect();
    if set.len() != sol.len() {
        errs.push(("dup", "duplicate solvable in solution vector".to_string()));
    }
    let soft_named: BTreeSet<u32> = p.soft.iter().copied().collect();
    for s in &set {
        if !w.solvables.contains_key(s) {
            errs.push(("unknown-id", format!("unknown solvable {s} in solution")));
            return errs;
        }
    }
    // root requirements
    for r in &p.requirements {
        let c = w.req_cand_set(r);
        if c.is_disjoint(&set) {
            errs.push(("root-req", format!("root requirement {r:?} not met")));
        }
    }
    // root constraints
    for vs in &p.constraints {
        for c in w.non_matching(*vs) {
            if set.contains(&c) {
                errs.push(("root-constraint", format!("root constraint vs{vs} violated by {c}")));
            }
        }
    }
    // per solvable
    let mut by_name: BTreeMap<u32, Vec<u32>> = BTreeMap::new();
    for &s in &set {
        by_name.entry(w.solvable_name(s)).or_default().push(s);
        match w.known_deps(s) {
            None => errs.push(("unknown-deps", format!("solvable {s} has Unknown dependencies"))),
            Some((reqs, cons)) => {
                for r in reqs {
                    if w.req_cand_set(r).is_disjoint(&set) {
                        errs.push(("req", format!("requirement {r:?} of {s} not met")));
                    }
                }
                for vs in cons {
                    for c in w.non_matching(*vs) {
                        if set.contains(&c) {
                            errs.push(("constrains", format!("constrains vs{vs} of {s} violated by {c}")));
                        }
                    }
                }
            }
        }
        if !soft_named.contains(&s) {
            if w.is_excluded(s) {
                errs.push(("excluded", format!("solvable {s} is excluded by its package")));
            }
            if w.locked_out(s) {
                errs.push(("locked", format!("solvable {s} is not the locked candidate of its package")));
            }
        }
    }
    for (n, v) in by_name {
        if v.len() > 1 {
            errs.push(("multi", format!("package {n} installed more than once: {v:?}")));
        }
    }
    errs
}

// ---------------------------------------------------------------------------------------------
// CNF + DPLL

#[derive(Clone, Debug, Default)]
pub struct Cnf {
    /// literal = +(v+1) / -(v+1)
    pub clauses: Vec<Vec<i32>>,
    pub nvars: usize,
}

#[derive(Clone, Debug, PartialEq, Eq)]
pub enum Sat {
    Sat(Vec<bool>),
    Unsat,
    Unknown,
}

impl Sat {
    pub fn is_sat(&self) -> Option<bool> {
        match self {
            Sat::Sat(_) => Some(true),
            Sat::Unsat => Some(false),
            Sat::Unknown => None,
        }
    }
}

struct Dpll<'a> {
    cnf: &'a Cnf,
    assign: Vec<i8>, // 0 unassigned, 1 true, -1 false
    trail: Vec<usize>,
    nodes: u64,
    budget: u64,
}

impl<'a> Dpll<'a> {
    fn lit_val(&self, l: i32) -> i8 {
        let v = (l.unsigned_abs() - 1) as usize;
        let a = self.assign[v];
        if l > 0 {
            a
        } else {
            -a
        }
    }
    fn set(&mut self, l: i32) {
        let v = (l.unsigned_abs() - 1) as usize;
        self.assign[v] = if l > 0 { 1 } else { -1 };
        self.trail.push(v);
    }
    /// naive unit propagation to fixpoint; false on conflict
    fn propagate(&mut self) -> bool {
        loop {
            let mut changed = false;
            for c in &self.cnf.clauses {
                let mut unassigned = 0;
                let mut last = 0;
                let mut sat = false;
                for &l in c {
                    match self.lit_val(l) {
                        1 => {
                            sat = true;
                            break;
                        }
                        0 => {
                            unassigned += 1;
                            last = l;
                        }
                        _ => {}
                    }
                }
                if sat {
                    continue;
                }
                if unassigned == 0 {
                    return false;
                }
                if unassigned == 1 {
                    let v = (last.unsigned_abs() - 1) as usize;
                    self.assign[v] = if last > 0 { 1 } else { -1 };
                    self.trail.push(v);
                    changed = true;
                }
            }
            if !changed {
                return true;
            }
        }
    }
    fn solve(&mut self) -> Option<bool> {
        self.nodes += 1;
        if self.nodes > self.budget {
            return None;
        }
        let mark = self.trail.len();
        if !self.propagate() {
            self.undo(mark);
            return Some(false);
        }
        // pick the first clause that is not satisfied; branch on its first unassigned literal
        let mut branch = 0;
        for c in &self.cnf.clauses {
            let mut sat = false;
            let mut first = 0;
            for &l in c {
                match self.lit_val(l) {
                    1 => {
                        sat = true;
                        break;
                    }
                    0 if first == 0 => first = l,
                    _ => {}
                }
            }
            if !sat {
                branch = first;
                break;
            }
        }
        if branch == 0 {
            return Some(true);
        }
        for l in [branch, -branch] {
            let m2 = self.trail.len();
            self.set(l);
            match self.solve() {
                Some(true) => return Some(true),
                None => {
                    self.undo(mark);
                    return None;
                }
                Some(false) => self.undo(m2),
            }
        }
        self.undo(mark);
        Some(false)
    }
    fn undo(&mut self, mark: usize) {
        while self.trail.len() > mark {
            let v = self.trail.pop().unwrap();
            self.assign[v] = 0;
        }
    }
}

pub fn dpll(cnf: &Cnf, budget: u64) -> Sat {
    let mut d = Dpll {
        cnf,
        assign: vec![0; cnf.nvars],
        trail: Vec::new(),
        nodes: 0,
        budget,
    };
    // all-negative polarity shortcut: clauses without positive literals are satisfied by "false",
    // the branching rule above already prefers making an unsatisfied clause true.
    match d.solve() {
        Some(true) => {
            let model = d.assign.iter().map(|&a| a == 1).collect();
            Sat::Sat(model)
        }
        Some(false) => Sat::Unsat,
        None => Sat::Unknown,
    }
}

/// Variable numbering for a world: solvable id -> dense variable.
pub struct VarMap {
    pub ids: Vec<u32>,
    pub index: BTreeMap<u32, usize>,
}

impl VarMap {
    pub fn new(w: &World) -> Self {
        let ids: Vec<u32> = w.solvables.keys().copied().collect();
        let index = ids.iter().enumerate().map(|(i, s)| (*s, i)).collect();
        VarMap { ids, index }
    }
    pub fn pos(&self, s: u32) -> i32 {
        (self.index[&s] + 1) as i32
    }
    pub fn neg(&self, s: u32) -> i32 {
        -((self.index[&s] + 1) as i32)
    }
}

#[derive(Clone, Copy, Debug, PartialEq, Eq)]
pub enum Leniency {
    /// No exemption at all (every solvable obeys its package's lock/exclusion list).
    Strict,
    /// Soft-named solvables are exempt from their own package's lock / exclusion list.
    SoftExempt,
}

/// CNF of "some valid selection exists for the hard problem (+ forced solvables)".
pub fn build_cnf(
    w: &World,
    p: &ProblemSpec,
    forced: &[u32],
    leniency: Leniency,
) -> (Cnf, VarMap) {
    let vm = VarMap::new(w);
    let mut cnf = Cnf {
        clauses: Vec::new(),
        nvars: vm.ids.len(),
    };
    let exempt: BTreeSet<u32> = match leniency {
        Leniency::Strict => BTreeSet::new(),
        Leniency::SoftExempt => p.soft.iter().copied().collect(),
    };
    for r in &p.requirements {
        cnf.clauses
            .push(w.req_cand_set(r).iter().map(|&c| vm.pos(c)).collect());
    }
    for vs in &p.constraints {
        for c in w.non_matching(*vs) {
            cnf.clauses.push(vec![vm.neg(c)]);
        }
    }
    for (&s, _) in &w.solvables {
        match w.known_deps(s) {
            None => cnf.clauses.push(vec![vm.neg(s)]),
            Some((reqs, cons)) => {
                for r in reqs {
                    let mut c = vec![vm.neg(s)];
                    c.extend(w.req_cand_set(r).iter().map(|&x| vm.pos(x)));
                    cnf.clauses.push(c);
                }
                for vs in cons {
                    for x in w.non_matching(*vs) {
                        if x == s {
                            cnf.clauses.push(vec![vm.neg(s)]);
                        } else {
                            cnf.clauses.push(vec![vm.neg(s), vm.neg(x)]);
                        }
                    }
                }
            }
        }
        if !exempt.contains(&s) && (w.is_excluded(s) || w.locked_out(s)) {
            cnf.clauses.push(vec![vm.neg(s)]);
        }
    }
    // at most one per name (over every solvable with that name)
    let mut by_name: BTreeMap<u32, Vec<u32>> = BTreeMap::new();
    for (&s, sv) in &w.solvables {
        by_name.entry(sv.name).or_default().push(s);
    }
    for (_, v) in by_name {
        for i in 0..v.len() {
            for j in (i + 1)..v.len() {
                cnf.clauses.push(vec![vm.neg(v[i]), vm.neg(v[j])]);
            }
        }
    }
    for f in forced {
        cnf.clauses.push(vec![vm.pos(*f)]);
    }
    (cnf, vm)
}

pub const REF_BUDGET: u64 = 200_000;

/// Is the hard problem (ignoring soft requirements) satisfiable? `forced` must additionally be installed.
pub fn ref_solve(w: &World, p: &ProblemSpec, forced: &[u32], leniency: Leniency) -> Sat {
    let (cnf, _) = build_cnf(w, p, forced, leniency);
    dpll_components(&cnf, REF_BUDGET)
}

/// DPLL per connected component of the variable-interaction graph (a chronological DPLL without learning
/// would otherwise re-explore independent sub-problems exponentially often). Returns a combined model.
pub fn dpll_components(cnf: &Cnf, budget: u64) -> Sat {
    let n = cnf.nvars;
    let mut parent: Vec<usize> = (0..n).collect();
    fn find(p: &mut Vec<usize>, x: usize) -> usize {
        let mut r = x;
        while p[r] != r {
            r = p[r];
        }
        let mut c = x;
        while p[c] != r {
            let nx = p[c];
            p[c] = r;
            c = nx;
        }
        r
    }
    for c in &cnf.clauses {
        if c.is_empty() {
            return Sat::Unsat;
        }
        let a = (c[0].unsigned_abs() - 1) as usize;
        for l in &c[1..] {
            let b = (l.unsigned_abs() - 1) as usize;
            let (ra, rb) = (find(&mut parent, a), find(&mut parent, b));
            if ra != rb {
                parent[ra] = rb;
            }
        }
    }
    let mut groups: BTreeMap<usize, Vec<usize>> = BTreeMap::new(); // root -> clause indices
    for (i, c) in cnf.clauses.iter().enumerate() {
        let r = find(&mut parent, (c[0].unsigned_abs() - 1) as usize);
        groups.entry(r).or_default().push(i);
    }
    if groups.len() <= 1 {
        return dpll(cnf, budget);
    }
    let mut model = vec![false; n];
    let mut unknown = false;
    for (_, idxs) in groups {
        // renumber the component's variables densely
        let mut map: BTreeMap<usize, usize> = BTreeMap::new();
        let mut sub = Cnf::default();
        for i in idxs {
            let mut cl = Vec::new();
            for l in &cnf.clauses[i] {
                let v = (l.unsigned_abs() - 1) as usize;
                let k = map.len();
                let nv = *map.entry(v).or_insert(k);
                cl.push(if *l > 0 { (nv + 1) as i32 } else { -((nv + 1) as i32) });
            }
            sub.clauses.push(cl);
        }
        sub.nvars = map.len();
        match dpll(&sub, budget) {
            Sat::Unsat => return Sat::Unsat,
            Sat::Unknown => unknown = true,
            Sat::Sat(m) => {
                for (v, nv) in map {
                    model[v] = m[nv];
                }
            }
        }
    }
    if unknown {
        Sat::Unknown
    } else {
        Sat::Sat(model)
    }
}

// ---------------------------------------------------------------------------------------------
// First-choice closure

#[derive(Clone, Debug)]
pub struct FirstChoice {
    /// The closure (set of first-ranked candidates reachable from the roots).
    pub set: BTreeSet<u32>,
    /// The closure is a valid selection and each reachable requirement is met only by its own first choice.
    pub consistent_exclusive: bool,
    /// Some reachable requirement has no candidate at all.
    pub dead_end: bool,
}

/// Closure of first choices starting from the root requirements (and optionally extra start solvables).
pub fn first_choice(w: &World, p: &ProblemSpec, extra_roots: &[u32]) -> FirstChoice {
    let mut set = BTreeSet::new();
    let mut queue: Vec<u32> = Vec::new();
    let mut dead_end = false;
    let mut reqs_seen: Vec<(Req, Option<u32>)> = Vec::new();
    for r in &p.requirements {
        let c = w.req_cands(r);
        reqs_seen.push((r.clone(), c.first().copied()));
        match c.first() {
            Some(&f) => {
                if set.insert(f) {
                    queue.push(f);
                }
            }
            None => dead_end = true,
        }
    }
    for &x in extra_roots {
        if set.insert(x) {
            queue.push(x);
        }
    }
    while let Some(s) = queue.pop() {
        if let Some((reqs, _)) = w.known_deps(s) {
            for r in reqs {
                let c = w.req_cands(r);
                reqs_seen.push((r.clone(), c.first().copied()));
                match c.first() {
                    Some(&f) => {
                        if set.insert(f) {
                            queue.push(f);
                        }
                    }
                    None => dead_end = true,
                }
            }
        }
    }
    let mut ok = !dead_end;
    if ok {
        let sol: Vec<u32> = set.iter().copied().collect();
        // strict validity: no exemption is used for the precondition
        let strict_problem = ProblemSpec {
            requirements: p.requirements.clone(),
            constraints: p.constraints.clone(),
            soft: vec![],
        };
        if !validity_errors(w, &strict_problem, &sol).is_empty() {
            ok = false;
        }
    }
    if ok {
        for (r, first) in &reqs_seen {
            let c = w.req_cand_set(r);
            let inter: Vec<u32> = c.intersection(&set).copied().collect();
            if inter.len() != 1 || Some(inter[0]) != *first {
                ok = false;
                break;
            }
        }
    }
    FirstChoice {
        set,
        consistent_exclusive: ok,
        dead_end,
    }
}

/// Least fixpoint of "needed" solvables inside a solution (C05).
pub fn reach_in_solution(w: &World, p: &ProblemSpec, sol: &BTreeSet<u32>) -> BTreeSet<u32> {
    let mut reach = BTreeSet::new();
    let mut queue = Vec::new();
    let mut add_req = |r: &Req, reach: &mut BTreeSet<u32>, queue: &mut Vec<u32>| {
        for c in w.req_cand_set(r) {
            if sol.contains(&c) && reach.insert(c) {
                queue.push(c);
            }
        }
    };
    for r in &p.requirements {
        add_req(r, &mut reach, &mut queue);
    }
    for s in &p.soft {
        if sol.contains(s) && reach.insert(*s) {
            queue.push(*s);
        }
    }
    while let Some(s) = queue.pop() {
        if let Some((reqs, _)) = w.known_deps(s) {
            for r in reqs {
                add_req(r, &mut reach, &mut queue);
            }
        }
    }
    reach
}
