//! A `Scenario` is a complete, explicit description of one simulated execution (world, solve history,
//! fault plan, schedule, hash salt ...). `execute` is a pure function of (scenario, tree).

use crate::core::{
    CancelPlan, Ev, Policy, SimAbort, SimCore, SimStats, Token, TraceStep,
};
use crate::prng::Rng;
use crate::provider::{to_requirement, SimProvider};
use crate::runtime::{set_salt, SimRuntime};
use crate::world::{ProblemSpec, World};
use petgraph::visit::EdgeRef;
use resolvo::conflict::{ConflictCause, ConflictEdge, ConflictNode};
use resolvo::runtime::{AsyncRuntime, NowOrNeverRuntime};
use resolvo::{Problem, SolvableId, Solver, UnsolvableOrCancelled, VersionSetId};
use serde::{Deserialize, Serialize};
use std::cell::{Cell, RefCell};
use std::panic::{catch_unwind, AssertUnwindSafe};
use std::rc::Rc;

#[derive(Clone, Debug, PartialEq, Serialize, Deserialize)]
pub struct SolveSpec {
    pub problem: ProblemSpec,
    pub cancel: Option<CancelPlan>,
}

#[derive(Clone, Debug, PartialEq, Serialize, Deserialize)]
#[serde(rename_all = "lowercase")]
pub enum RuntimeKind {
    /// resolvo's own default runtime (provider never yields)
    NowOrNever,
    /// the simulator's executor
    Sim,
}

#[derive(Clone, Debug, PartialEq, Serialize, Deserialize)]
pub struct Scenario {
    pub world: World,
    pub solves: Vec<SolveSpec>,
    pub runtime: RuntimeKind,
    /// which provider methods yield: bit 1 cand, 2 deps, 4 filter, 8 sort
    pub yield_mask: u8,
    pub policy: Policy,
    pub sched_seed: u64,
    pub batch_p: u32,
    pub spurious_p: u32,
    pub hash_salt: u64,
    pub activity: Option<(f32, f32)>,
    pub reentrant_sort: bool,
    /// render conflict graph / message / graphviz for Unsolvable results
    pub render: bool,
    pub step_budget: u64,
    pub poll_budget: u64,
    /// Extra salts (C06) – the scenario is executed once per salt, everything else identical.
    #[serde(default)]
    pub extra_salts: Vec<u64>,
    /// Workloads that are not plain `Solver::solve` histories (C16 snapshot, C20 cache clients).
    #[serde(default)]
    pub extra: Option<Extra>,
    /// `should_cancel_with_value` answers Some while an Unsolvable result is being rendered (a deadline-based
    /// provider whose deadline passes after solve returned).
    #[serde(default)]
    pub cancel_during_render: bool,
    /// capture the solver's internal state after every solve (guarded verif-hooks accessor)
    #[serde(default)]
    pub capture_state: bool,
    /// call `Solver::with_runtime` (same kind of runtime) between an Unsolvable result and rendering it
    #[serde(default)]
    pub rewrap_before_render: bool,
    /// the list of solves is run this many times in a row on the same solver (0 and 1: once) - long-lived solvers
    #[serde(default)]
    pub repeat: u32,
    /// representation of the cancellation value inside its `Box<dyn Any>` (core::box_token)
    #[serde(default)]
    pub token_repr: u8,
    /// run with a `tracing` subscriber that is enabled at every level (the arguments of every tracing macro in the
    /// subject are evaluated and formatted); a subscriber must not change what the solver does
    #[serde(default)]
    pub trace_subscriber: bool,
    /// x/8: a request of a kind that yields is nevertheless answered at once (decided per request from the schedule
    /// seed, the kind and the argument) - a provider that has part of its metadata at hand
    #[serde(default)]
    pub immediate_p: u8,
}

#[derive(Clone, Debug, PartialEq, Serialize, Deserialize)]
#[serde(rename_all = "lowercase")]
pub enum Extra {
    Snapshot(SnapSpec),
    Cache(CacheSpec),
}

#[derive(Clone, Debug, PartialEq, Serialize, Deserialize)]
#[serde(rename_all = "lowercase")]
pub enum SnapVs {
    /// a version set of the live provider (captured in the snapshot)
    Captured(u32),
    /// the i-th `add_package_requirement` call
    Added(usize),
}

#[derive(Clone, Debug, PartialEq, Serialize, Deserialize)]
#[serde(rename_all = "lowercase")]
pub enum SnapReq {
    Single(SnapVs),
    Union(u32),
}

#[derive(Clone, Debug, PartialEq, Serialize, Deserialize, Default)]
pub struct SnapProblem {
    pub requirements: Vec<SnapReq>,
    pub constraints: Vec<SnapVs>,
}

#[derive(Clone, Debug, PartialEq, Serialize, Deserialize, Default)]
pub struct SnapSpec {
    pub seed_names: Vec<u32>,
    pub seed_version_sets: Vec<u32>,
    pub seed_solvables: Vec<u32>,
    /// number of serde_json round trips before the snapshot is used
    pub serde_cycles: u8,
    /// (package name, matcher) of successive add_package_requirement calls
    pub adds: Vec<(u32, String)>,
    /// `with_timeout(far future)` is applied after this many adds (None = never)
    #[serde(default)]
    pub timeout_after: Option<usize>,
    pub problems: Vec<SnapProblem>,
}

#[derive(Clone, Debug, PartialEq, Serialize, Deserialize)]
#[serde(rename_all = "lowercase")]
pub enum CacheOp {
    Candidates(u32),
    Matching(u32),
    NonMatching(u32),
    Sorted(crate::world::Req),
    Deps(u32),
    Available(u32),
    /// issue get_or_cache_candidates(name), poll it this many times, then drop it unfinished (a caller that
    /// loses interest while its request is pending)
    AbandonCandidates(u32, u32),
}

#[derive(Clone, Debug, PartialEq, Serialize, Deserialize, Default)]
pub struct CacheSpec {
    /// concurrent client tasks, each issuing its operations in order
    pub clients: Vec<Vec<CacheOp>>,
    /// cancellation fault during the concurrent phase
    #[serde(default)]
    pub cancel: Option<CancelPlan>,
}

impl Scenario {
    pub fn basic(world: World, problem: ProblemSpec) -> Self {
        Scenario {
            world,
            solves: vec![SolveSpec {
                problem,
                cancel: None,
            }],
            runtime: RuntimeKind::NowOrNever,
            yield_mask: 0,
            policy: Policy::Fifo,
            sched_seed: 0,
            batch_p: 0,
            spurious_p: 0,
            hash_salt: 1,
            activity: None,
            reentrant_sort: false,
            render: false,
            step_budget: 100_000,
            poll_budget: 30_000,
            extra_salts: vec![],
            extra: None,
            cancel_during_render: false,
            capture_state: false,
            rewrap_before_render: false,
            repeat: 0,
            token_repr: 0,
            trace_subscriber: false,
            immediate_p: 0,
        }
    }
}

#[derive(Clone, Debug, PartialEq, Eq, Serialize, Deserialize)]
#[serde(rename_all = "lowercase")]
pub enum GNode {
    Root,
    Solvable(u32),
    Unresolved,
    Excluded(u32),
}

#[derive(Clone, Debug, PartialEq, Eq, Serialize, Deserialize)]
#[serde(rename_all = "lowercase")]
pub enum GEdge {
    Requires(crate::world::Req),
    Constrains(u32),
    Locked(u32),
    Forbid,
    Excluded,
}

#[derive(Clone, Debug, PartialEq, Eq, Serialize, Deserialize)]
pub struct GraphDump {
    pub nodes: Vec<GNode>,
    pub edges: Vec<(usize, usize, GEdge)>,
    pub root: usize,
    pub unresolved: Option<usize>,
}

#[derive(Clone, Debug, PartialEq, Eq)]
pub struct PanicInfo {
    pub msg: String,
    pub file: String,
    pub line: u32,
}

impl PanicInfo {
    /// Stable identity of a panic site: file + message prefix (line numbers move when the tree is edited).
    pub fn site(&self) -> String {
        // numbers (lengths, indices, ids) vary between worlds hitting the same site
        let mut m = String::new();
        let mut last_digit = false;
        for c in self.msg.chars().take(70) {
            if c.is_ascii_digit() {
                if !last_digit {
                    m.push('#');
                }
                last_digit = true;
            } else if c == '\n' {
                m.push(' ');
                last_digit = false;
            } else {
                m.push(c);
                last_digit = false;
            }
        }
        format!("{}|{}", self.file, m)
    }
}

#[derive(Clone, Debug, PartialEq, Eq)]
pub struct Rendered {
    pub graph: GraphDump,
    pub message: Option<String>,
    pub graphviz: Option<String>,
    pub graphviz_simplified: Option<String>,
    /// "output not bounded" or a panic during rendering
    pub render_failure: Option<String>,
    pub render_panic: Option<PanicInfo>,
}

#[derive(Clone, Debug, PartialEq, Eq)]
pub enum Outcome {
    Ok(Vec<u32>),
    Unsolvable(Option<Rendered>),
    Cancelled(Option<Token>),
    Panic(PanicInfo),
    Deadlock,
    StepBudget,
}

impl Outcome {
    pub fn short(&self) -> String {
        match self {
            Outcome::Ok(v) => format!("Ok({v:?})"),
            Outcome::Unsolvable(_) => "Unsolvable".into(),
            Outcome::Cancelled(t) => format!("Cancelled({t:?})"),
            Outcome::Panic(p) => format!("Panic({}:{}: {})", p.file, p.line, p.msg),
            Outcome::Deadlock => "Deadlock".into(),
            Outcome::StepBudget => "StepBudget".into(),
        }
    }
    pub fn verdict(&self) -> Option<bool> {
        match self {
            Outcome::Ok(_) => Some(true),
            Outcome::Unsolvable(_) => Some(false),
            _ => None,
        }
    }
    /// the run died in a way that is C04's business (or C10/C13's for Deadlock)
    pub fn is_crash(&self) -> bool {
        matches!(
            self,
            Outcome::Panic(_) | Outcome::Deadlock | Outcome::StepBudget | Outcome::Cancelled(Some(Token::Budget))
        )
    }
}

pub struct RunRecord {
    pub outcomes: Vec<Outcome>,
    /// internal state after each solve (when `capture_state`)
    pub dumps: Vec<Option<resolvo::verif_hooks::Dump>>,
    /// invariant violations seen by the online observer while the solves were running (when `capture_state`)
    pub online_violations: Vec<String>,
    /// number of intermediate states the online observer looked at
    pub online_states: u64,
    pub log: Vec<Ev>,
    pub stats: SimStats,
    pub trace: Vec<TraceStep>,
    pub cache_mismatch: Vec<String>,
    /// log index at which every solve began / ended
    pub solve_spans: Vec<(usize, usize)>,
}

thread_local! {
    static LAST_PANIC: RefCell<Option<PanicInfo>> = const { RefCell::new(None) };
    static QUIET: Cell<bool> = const { Cell::new(false) };
}

pub fn install_panic_hook() {
    let default = std::panic::take_hook();
    std::panic::set_hook(Box::new(move |info| {
        let msg = if let Some(s) = info.payload().downcast_ref::<&str>() {
            s.to_string()
        } else if let Some(s) = info.payload().downcast_ref::<String>() {
            s.clone()
        } else if info.payload().downcast_ref::<SimAbort>().is_some() {
            "<SimAbort>".to_string()
        } else {
            "<non-string panic>".to_string()
        };
        let (file, line) = info
            .location()
            .map(|l| (l.file().to_string(), l.line()))
            .unwrap_or_default();
        // normalise the location of the repository (/repo, or a scratch copy in the selftests): keep the path from
        // the crate's `src/` on, so that a violation class does not depend on where the subject was built from
        let file = if file.starts_with("/root/.cargo/") || file.starts_with("/rustc/") {
            file
        } else if let Some(pos) = file.rfind("/src/") {
            file[pos + 1..].to_string()
        } else {
            file.strip_prefix("/repo/").map(|s| s.to_string()).unwrap_or(file)
        };
        LAST_PANIC.with(|p| *p.borrow_mut() = Some(PanicInfo { msg, file, line }));
        if !QUIET.with(|q| q.get()) {
            default(info);
        }
    }));
}

pub fn set_quiet(q: bool) {
    QUIET.with(|c| c.set(q));
}

pub fn take_last_panic() -> PanicInfo {
    take_panic()
}

fn take_panic() -> PanicInfo {
    LAST_PANIC
        .with(|p| p.borrow_mut().take())
        .unwrap_or(PanicInfo {
            msg: "<unknown>".into(),
            file: String::new(),
            line: 0,
        })
}

/// Writer that refuses to grow past a bound (renderer watchdog).
struct Bounded {
    buf: Vec<u8>,
    max: usize,
}

impl std::io::Write for Bounded {
    fn write(&mut self, b: &[u8]) -> std::io::Result<usize> {
        if self.buf.len() + b.len() > self.max {
            return Err(std::io::Error::new(std::io::ErrorKind::Other, "bound"));
        }
        self.buf.extend_from_slice(b);
        Ok(b.len())
    }
    fn flush(&mut self) -> std::io::Result<()> {
        Ok(())
    }
}

impl std::fmt::Write for Bounded {
    fn write_str(&mut self, s: &str) -> std::fmt::Result {
        if self.buf.len() + s.len() > self.max {
            return Err(std::fmt::Error);
        }
        self.buf.extend_from_slice(s.as_bytes());
        Ok(())
    }
}

fn dump_graph(g: &resolvo::conflict::ConflictGraph) -> GraphDump {
    let mut nodes = Vec::new();
    let mut index = std::collections::BTreeMap::new();
    for nx in g.graph.node_indices() {
        let n = match g.graph[nx] {
            ConflictNode::Solvable(id) => match id.solvable() {
                None => GNode::Root,
                Some(s) => GNode::Solvable(s.0),
            },
            ConflictNode::UnresolvedDependency => GNode::Unresolved,
            ConflictNode::Excluded(r) => GNode::Excluded(r.0),
        };
        index.insert(nx, nodes.len());
        nodes.push(n);
    }
    let mut edges = Vec::new();
    for e in g.graph.edge_references() {
        let k = match e.weight() {
            ConflictEdge::Requires(r) => GEdge::Requires(crate::provider::from_requirement(*r)),
            ConflictEdge::Conflict(ConflictCause::Constrains(v)) => GEdge::Constrains(v.0),
            ConflictEdge::Conflict(ConflictCause::Locked(s)) => GEdge::Locked(s.0),
            ConflictEdge::Conflict(ConflictCause::ForbidMultipleInstances) => GEdge::Forbid,
            ConflictEdge::Conflict(ConflictCause::Excluded) => GEdge::Excluded,
        };
        edges.push((index[&e.source()], index[&e.target()], k));
    }
    GraphDump {
        nodes,
        edges,
        root: index[&g.root_node],
        unresolved: g.unresolved_node.map(|n| index[&n]),
    }
}

fn render<RT: AsyncRuntime>(
    solver: &Solver<SimProvider, RT>,
    conflict: &resolvo::conflict::Conflict,
) -> Result<Rendered, PanicInfo> {
    let r = catch_unwind(AssertUnwindSafe(|| {
        let g = conflict.graph(solver);
        let dump = dump_graph(&g);
        let n = dump.nodes.len() + dump.edges.len();
        let max = (64 * 1024).max(2048 * n * n);
        let mut failure = None;
        let mut gv = [None, None];
        for (i, simplify) in [false, true].iter().enumerate() {
            let mut w = Bounded {
                buf: Vec::new(),
                max,
            };
            match g.graphviz(&mut w, solver.provider(), *simplify) {
                Ok(()) => gv[i] = Some(String::from_utf8_lossy(&w.buf).to_string()),
                Err(_) => failure = Some(format!("graphviz(simplify={simplify}) exceeded {max} bytes")),
            }
        }
        let mut w = Bounded {
            buf: Vec::new(),
            max,
        };
        let disp = conflict.display_user_friendly(solver);
        let message = match std::fmt::write(&mut w, format_args!("{disp}")) {
            Ok(()) => Some(String::from_utf8_lossy(&w.buf).to_string()),
            Err(_) => {
                failure = Some(format!("display_user_friendly exceeded {max} bytes"));
                None
            }
        };
        let [a, b] = gv;
        Rendered {
            graph: dump,
            message,
            graphviz: a,
            graphviz_simplified: b,
            render_failure: failure,
            render_panic: None,
        }
    }));
    r.map_err(|_| take_panic())
}

fn drive<RT: AsyncRuntime + Clone>(
    mut solver: Solver<SimProvider, RT>,
    rt: RT,
    sc: &Scenario,
    core: &Rc<SimCore>,
    outcomes: &mut Vec<Outcome>,
    spans: &mut Vec<(usize, usize)>,
    dumps: &mut Vec<Option<resolvo::verif_hooks::Dump>>,
) {
    let total = sc.solves.len() * sc.repeat.max(1) as usize;
    for i in 0..total {
        let spec = &sc.solves[i % sc.solves.len()];
        core.solve_idx.set(i);
        *core.cancel_plan.borrow_mut() = spec.cancel.clone();
        core.cancel_polls.set(0);
        core.steps.set(0);
        let begin = core.seq();
        core.log(Ev::SolveBegin(i));
        let problem = Problem::new()
            .requirements(spec.problem.requirements.iter().map(to_requirement).collect())
            .constraints(spec.problem.constraints.iter().map(|&v| VersionSetId(v)).collect())
            .soft_requirements(
                spec.problem
                    .soft
                    .iter()
                    .map(|&s| SolvableId(s))
                    .collect::<Vec<_>>(),
            );
        let mut res = catch_unwind(AssertUnwindSafe(|| solver.solve(problem)));
        // the read-only accessor walks the solver's internal tables: if they are inconsistent it may panic, which is a
        // crash of the subject like any other (and must not take the worker down)
        dumps.push(if sc.capture_state && matches!(res, Ok(Ok(_)) | Ok(Err(UnsolvableOrCancelled::Unsolvable(_)))) {
            match catch_unwind(AssertUnwindSafe(|| solver.verif_dump())) {
                Ok(d) => Some(d),
                Err(payload) => {
                    res = Err(payload);
                    None
                }
            }
        } else {
            None
        });
        // cancellation does not leak into rendering / bookkeeping, unless the scenario asks for it
        *core.cancel_plan.borrow_mut() = if sc.cancel_during_render {
            Some(CancelPlan {
                at_poll: 0,
                mode: crate::core::CancelMode::Persistent,
            })
        } else {
            None
        };
        let mut fatal = false;
        let outcome = match res {
            Ok(Ok(v)) => Outcome::Ok(v.into_iter().map(|s| s.0).collect()),
            Ok(Err(UnsolvableOrCancelled::Cancelled(v))) => {
                Outcome::Cancelled(crate::core::unbox_token(v.as_ref()))
            }
            Ok(Err(UnsolvableOrCancelled::Unsolvable(conflict))) => {
                if sc.rewrap_before_render {
                    solver = solver.with_runtime(rt.clone());
                }
                if sc.render {
                    match render(&solver, &conflict) {
                        Ok(r) => Outcome::Unsolvable(Some(r)),
                        Err(p) => {
                            fatal = true;
                            Outcome::Unsolvable(Some(Rendered {
                                graph: GraphDump {
                                    nodes: vec![],
                                    edges: vec![],
                                    root: 0,
                                    unresolved: None,
                                },
                                message: None,
                                graphviz: None,
                                graphviz_simplified: None,
                                render_failure: None,
                                render_panic: Some(p),
                            }))
                        }
                    }
                } else {
                    Outcome::Unsolvable(None)
                }
            }
            Err(payload) => {
                fatal = true;
                match payload.downcast_ref::<SimAbort>() {
                    Some(SimAbort::Deadlock) => {
                        let _ = take_panic();
                        Outcome::Deadlock
                    }
                    Some(SimAbort::Budget) => {
                        let _ = take_panic();
                        Outcome::StepBudget
                    }
                    None => Outcome::Panic(take_panic()),
                }
            }
        };
        core.log(Ev::SolveEnd(i));
        spans.push((begin, core.seq()));
        outcomes.push(outcome);
        if fatal {
            // the solver's internal state is not trustworthy after an unwind
            break;
        }
    }
}

pub fn make_core(sc: &Scenario) -> Rc<SimCore> {
    Rc::new(SimCore {
        world: sc.world.clone(),
        log: RefCell::new(Vec::new()),
        pending: RefCell::new(Vec::new()),
        next_rid: Cell::new(0),
        yield_mask: if sc.runtime == RuntimeKind::NowOrNever {
            0
        } else {
            sc.yield_mask
        },
        policy: RefCell::new(sc.policy.clone()),
        trace_pos: Cell::new(0),
        sched: RefCell::new(Rng::stream(sc.sched_seed, "schedule")),
        now: Cell::new(0),
        steps: Cell::new(0),
        step_budget: sc.step_budget,
        poll_budget: sc.poll_budget,
        solve_idx: Cell::new(0),
        cancel_plan: RefCell::new(None),
        cancel_polls: Cell::new(0),
        reentrant_sort: sc.reentrant_sort,
        sort_depth: Cell::new(0),
        stats: RefCell::new(SimStats::default()),
        cache_mismatch: RefCell::new(Vec::new()),
        trace_out: RefCell::new(Vec::new()),
        batch_p: sc.batch_p,
        spurious_p: sc.spurious_p,
        token_repr: sc.token_repr,
        immediate_p: sc.immediate_p,
        immediate_salt: sc.sched_seed,
    })
}

thread_local! {
    static ONLINE: RefCell<(Vec<String>, u64, u64)> = const { RefCell::new((Vec::new(), 0, 0)) };
}

/// Online observer (guarded verif-hooks seam): looks at the solver state whenever unit propagation reached a
/// fixpoint and checks that every propagated assignment on the trail is justified at that moment. On large
/// universes only every 48th state is copied (every 4th on small ones).
fn install_observer(stride: u64) {
    ONLINE.with(|o| *o.borrow_mut() = (Vec::new(), 0, 0));
    resolvo::verif_hooks::set_observer(Some(Box::new(move |dump| {
        match dump {
            None => ONLINE.with(|o| {
                let mut o = o.borrow_mut();
                o.1 += 1;
                o.0.is_empty() && (o.1 % stride == 0)
            }),
            Some(d) => {
                ONLINE.with(|o| {
                    let mut o = o.borrow_mut();
                    o.2 += 1;
                    if let Some(e) = crate::internal::trail_justified(d) {
                        o.0.push(e);
                    }
                });
                false
            }
        }
    })));
}

/// Execute a scenario with one hash salt.
pub fn execute_with_salt(sc: &Scenario, salt: u64) -> RunRecord {
    let _all_levels = AllLevelsGuard(crate::probes::set_all_levels(sc.trace_subscriber));
    set_salt(salt);
    if sc.capture_state {
        install_observer(if sc.world.n_solvables() <= 64 { 4 } else { 48 });
    }
    let core = make_core(sc);
    let provider = SimProvider::new(core.clone());
    let mut outcomes = Vec::new();
    let mut spans = Vec::new();
    let mut dumps = Vec::new();
    let solver = Solver::new(provider);
    let solver = match sc.activity {
        Some((a, d)) => solver.with_activity_params(a, d),
        None => solver,
    };
    match sc.runtime {
        RuntimeKind::NowOrNever => {
            drive::<NowOrNeverRuntime>(solver, NowOrNeverRuntime, sc, &core, &mut outcomes, &mut spans, &mut dumps)
        }
        RuntimeKind::Sim => {
            let rt = SimRuntime { core: core.clone() };
            let solver = solver.with_runtime(rt.clone());
            drive(solver, rt, sc, &core, &mut outcomes, &mut spans, &mut dumps)
        }
    }
    let log = core.log.borrow().clone();
    let stats = core.stats.borrow().clone();
    let trace = core.trace_out.borrow().clone();
    let cache_mismatch = core.cache_mismatch.borrow().clone();
    let (online_violations, online_states) = if sc.capture_state {
        resolvo::verif_hooks::set_observer(None);
        ONLINE.with(|o| {
            let o = o.borrow();
            (o.0.clone(), o.2)
        })
    } else {
        (Vec::new(), 0)
    };
    RunRecord {
        outcomes,
        dumps,
        online_violations,
        online_states,
        log,
        stats,
        trace,
        cache_mismatch,
        solve_spans: spans,
    }
}

pub fn execute(sc: &Scenario) -> RunRecord {
    execute_with_salt(sc, sc.hash_salt)
}

/// Restores the previous all-levels setting of the tracing seam when a run ends (also by unwinding).
struct AllLevelsGuard(bool);
impl Drop for AllLevelsGuard {
    fn drop(&mut self) {
        crate::probes::set_all_levels(self.0);
    }
}

/// Digest of everything observable in a run (determinism self-test).
pub fn digest(rec: &RunRecord) -> u64 {
    let mut s = String::new();
    for o in &rec.outcomes {
        s.push_str(&format!("{o:?};"));
    }
    for e in &rec.log {
        s.push_str(&format!("{e:?};"));
    }
    crate::prng::fnv(&s)
}


/// Digest of what a caller can observe (results and rendered conflict text), not of the history.
pub fn observable_digest(rec: &RunRecord) -> u64 {
    let mut s = String::new();
    for o in &rec.outcomes {
        s.push_str(&format!("{o:?};"));
    }
    crate::prng::fnv(&s)
}
