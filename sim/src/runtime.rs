//! `SimRuntime`: single-threaded executor stub for `resolvo::runtime::AsyncRuntime`. The only source
//! of progress is the simulator's scheduler (`SimCore::on_quiescent`).

use crate::core::SimCore;
use resolvo::runtime::AsyncRuntime;
use std::future::Future;
use std::pin::pin;
use std::rc::Rc;
use std::sync::atomic::{AtomicBool, AtomicU64, Ordering};
use std::sync::Arc;
use std::task::{Context, Poll, Wake, Waker};

struct Flag(AtomicBool);

impl Wake for Flag {
    fn wake(self: Arc<Self>) {
        self.0.store(true, Ordering::SeqCst);
    }
    fn wake_by_ref(self: &Arc<Self>) {
        self.0.store(true, Ordering::SeqCst);
    }
}

#[derive(Clone)]
pub struct SimRuntime {
    pub core: Rc<SimCore>,
}

impl AsyncRuntime for SimRuntime {
    fn block_on<F: Future>(&self, f: F) -> F::Output {
        let mut f = pin!(f);
        let flag = Arc::new(Flag(AtomicBool::new(true)));
        let waker = Waker::from(flag.clone());
        let mut cx = Context::from_waker(&waker);
        loop {
            if flag.0.swap(false, Ordering::SeqCst) {
                match f.as_mut().poll(&mut cx) {
                    Poll::Ready(v) => return v,
                    Poll::Pending => continue,
                }
            }
            // quiescent point: root future pending, nothing woke it
            self.core.on_quiescent();
            // a spurious wake does not go through a waker
            flag.0.store(true, Ordering::SeqCst);
        }
    }
}

// ---------------------------------------------------------------------------------------------
// Hash salt seam: every `ahash::RandomState::new()` in the subject draws its per-map seed from here.

static SALT: AtomicU64 = AtomicU64::new(0);
static SALT_DRAWS: AtomicU64 = AtomicU64::new(0);

struct SaltSource;

impl ahash::random_state::RandomSource for SaltSource {
    fn gen_hasher_seed(&self) -> usize {
        SALT_DRAWS.fetch_add(1, Ordering::Relaxed);
        let mut x = SALT.load(Ordering::Relaxed);
        let out = crate::prng::splitmix(&mut x);
        SALT.store(x, Ordering::Relaxed);
        out as usize
    }
}

/// Must be called once per process before any ahash map is created.
pub fn install_salt_source() {
    ahash::random_state::set_random_source(SaltSource).expect("ahash random source already set");
}

/// Start of a run: all ahash maps created from now on are seeded from this stream.
pub fn set_salt(salt: u64) {
    SALT.store(salt, Ordering::Relaxed);
}

pub fn salt_draws() -> u64 {
    SALT_DRAWS.load(Ordering::Relaxed)
}
