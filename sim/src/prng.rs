//! Self-contained PRNG (SplitMix64 seeding + xoshiro256**). No dependence on the `rand` crate so that a
//! seed means the same execution whatever crate versions are in the cargo cache.

#[derive(Clone, Debug)]
pub struct Rng {
    s: [u64; 4],
}

pub fn splitmix(x: &mut u64) -> u64 {
    *x = x.wrapping_add(0x9E37_79B9_7F4A_7C15);
    let mut z = *x;
    z = (z ^ (z >> 30)).wrapping_mul(0xBF58_476D_1CE4_E5B9);
    z = (z ^ (z >> 27)).wrapping_mul(0x94D0_49BB_1331_11EB);
    z ^ (z >> 31)
}

/// FNV-1a over a string; used to derive named sub-streams.
pub fn fnv(s: &str) -> u64 {
    let mut h: u64 = 0xcbf2_9ce4_8422_2325;
    for b in s.as_bytes() {
        h ^= *b as u64;
        h = h.wrapping_mul(0x0000_0100_0000_01B3);
    }
    h
}

/// Mix several integers into one seed.
pub fn mix(parts: &[u64]) -> u64 {
    let mut x = 0x1234_5678_9abc_def0u64;
    let mut out = 0u64;
    for p in parts {
        x ^= *p;
        out = out.rotate_left(17) ^ splitmix(&mut x);
    }
    let mut y = out;
    splitmix(&mut y)
}

impl Rng {
    pub fn new(seed: u64) -> Self {
        let mut x = seed;
        let s = [
            splitmix(&mut x),
            splitmix(&mut x),
            splitmix(&mut x),
            splitmix(&mut x),
        ];
        Rng { s }
    }

    /// Independent named stream derived from a run seed.
    pub fn stream(seed: u64, name: &str) -> Self {
        Rng::new(mix(&[seed, fnv(name)]))
    }

    pub fn next_u64(&mut self) -> u64 {
        let result = self.s[1].wrapping_mul(5).rotate_left(7).wrapping_mul(9);
        let t = self.s[1] << 17;
        self.s[2] ^= self.s[0];
        self.s[3] ^= self.s[1];
        self.s[1] ^= self.s[2];
        self.s[0] ^= self.s[3];
        self.s[2] ^= t;
        self.s[3] = self.s[3].rotate_left(45);
        result
    }

    /// Uniform in 0..n (n > 0).
    pub fn below(&mut self, n: usize) -> usize {
        debug_assert!(n > 0);
        ((self.next_u64() >> 11) % (n as u64)) as usize
    }

    /// Uniform in lo..=hi
    pub fn range(&mut self, lo: usize, hi: usize) -> usize {
        lo + self.below(hi - lo + 1)
    }

    /// true with probability num/den
    pub fn chance(&mut self, num: usize, den: usize) -> bool {
        self.below(den) < num
    }

    pub fn f32(&mut self) -> f32 {
        ((self.next_u64() >> 40) as f32) / ((1u64 << 24) as f32)
    }

    pub fn pick<'a, T>(&mut self, xs: &'a [T]) -> &'a T {
        &xs[self.below(xs.len())]
    }

    pub fn shuffle<T>(&mut self, xs: &mut [T]) {
        for i in (1..xs.len()).rev() {
            let j = self.below(i + 1);
            xs.swap(i, j);
        }
    }

    /// Pick an index according to integer weights.
    pub fn weighted(&mut self, weights: &[usize]) -> usize {
        let total: usize = weights.iter().sum();
        let mut x = self.below(total.max(1));
        for (i, w) in weights.iter().enumerate() {
            if x < *w {
                return i;
            }
            x -= *w;
        }
        weights.len() - 1
    }
}
