//! Simulator core shared by the provider stub and the runtime stub: event log (history), table of
//! in-flight provider requests, the seeded scheduler and the cancellation fault plan.

use crate::prng::Rng;
use crate::world::World;
use serde::{Deserialize, Serialize};
use std::cell::{Cell, RefCell};
use std::task::Waker;

#[derive(Clone, Copy, Debug, PartialEq, Eq, Hash, PartialOrd, Ord, Serialize, Deserialize)]
#[serde(rename_all = "lowercase")]
pub enum Kind {
    Cand,
    Deps,
    Filter,
    Sort,
}

/// Identity of a provider request independent of when it was issued (used by schedule traces).
#[derive(Clone, Debug, PartialEq, Eq, Hash, PartialOrd, Ord, Serialize, Deserialize)]
pub struct ReqKey(pub String);

impl ReqKey {
    pub fn cand(name: u32) -> Self {
        ReqKey(format!("cand:{name}"))
    }
    pub fn deps(s: u32) -> Self {
        ReqKey(format!("deps:{s}"))
    }
    pub fn filter(vs: u32, inverse: bool) -> Self {
        ReqKey(format!("filter:{vs}:{}", inverse as u8))
    }
    pub fn sort(xs: &[u32]) -> Self {
        let mut s = String::from("sort");
        for x in xs {
            s.push(':');
            s.push_str(&x.to_string());
        }
        ReqKey(s)
    }
}

#[derive(Clone, Debug, PartialEq, Eq)]
pub enum Ev {
    SolveBegin(usize),
    SolveEnd(usize),
    /// provider method body entered (the solver really issued the request)
    Start {
        rid: u64,
        kind: Kind,
        /// name id / solvable id / version set id / 0
        arg: u32,
        key: ReqKey,
        /// issued while a `sort_candidates` body of the provider was active (re-entrant query)
        in_sort: bool,
    },
    /// the scheduler completed the request
    Complete { rid: u64 },
    /// the provider method returned its value to the caller
    Deliver { rid: u64 },
    /// the future was destroyed before delivering
    Dropped { rid: u64 },
    CancelPoll { n: u64, fired: bool },
    /// runtime found the root future pending with nothing woken; `pending` = rids in flight
    Quiescent { pending: Vec<u64> },
    Spurious,
}

#[derive(Clone, Debug, PartialEq, Serialize, Deserialize)]
#[serde(rename_all = "lowercase")]
pub enum Policy {
    Random,
    Fifo,
    Lifo,
    /// discrete-event virtual time with per-kind latency distributions
    VirtualTime,
    /// requests of this kind are completed only when nothing else is pending
    Starve(Kind),
    /// the oldest request is completed only when nothing else is pending
    StarveOldest,
    /// explicit completion order by request key; falls back to FIFO when exhausted
    Trace(Vec<TraceStep>),
}

#[derive(Clone, Debug, PartialEq, Serialize, Deserialize)]
#[serde(rename_all = "lowercase")]
pub enum TraceStep {
    /// complete these requests (by key) before the next poll
    Batch(Vec<ReqKey>),
    Spurious,
}

#[derive(Clone, Debug, PartialEq, Eq, Serialize, Deserialize)]
#[serde(rename_all = "lowercase")]
pub enum CancelMode {
    Persistent,
    Transient,
}

#[derive(Clone, Debug, PartialEq, Eq, Serialize, Deserialize)]
pub struct CancelPlan {
    pub at_poll: u64,
    pub mode: CancelMode,
}

/// Value handed out by `should_cancel_with_value`.
#[derive(Clone, Debug, PartialEq, Eq)]
pub enum Token {
    Cancel { solve: usize, poll: u64 },
    Budget,
}

#[derive(Debug)]
pub enum SimAbort {
    /// root future pending, nothing in flight: the solver waits for something that cannot complete
    Deadlock,
    /// too many scheduler steps
    Budget,
}

pub struct Pending {
    pub rid: u64,
    pub kind: Kind,
    pub key: ReqKey,
    pub waker: Option<Waker>,
    pub done: bool,
    pub due: u64,
}

#[derive(Default, Clone, Debug)]
pub struct SimStats {
    pub quiescent_points: u64,
    pub max_in_flight: usize,
    pub spurious: u64,
    pub batches: u64,
    pub completions: u64,
    pub virtual_time: u64,
    pub dropped_in_flight: u64,
    pub cancel_polls: u64,
    pub cancel_fired: u64,
    pub listener_path: u64,
    pub max_polls_in_a_solve: u64,
}

pub struct SimCore {
    pub world: World,
    pub log: RefCell<Vec<Ev>>,
    pub pending: RefCell<Vec<Pending>>,
    pub next_rid: Cell<u64>,
    /// bit per Kind: does that provider method yield?
    pub yield_mask: u8,
    pub policy: RefCell<Policy>,
    pub trace_pos: Cell<usize>,
    pub sched: RefCell<Rng>,
    pub now: Cell<u64>,
    pub steps: Cell<u64>,
    pub step_budget: u64,
    pub poll_budget: u64,
    pub solve_idx: Cell<usize>,
    pub cancel_plan: RefCell<Option<CancelPlan>>,
    pub cancel_polls: Cell<u64>,
    pub reentrant_sort: bool,
    pub sort_depth: Cell<u32>,
    pub stats: RefCell<SimStats>,
    /// answers of the cache that contradicted the tables, found inside provider code (C20)
    pub cache_mismatch: RefCell<Vec<String>>,
    /// recorded schedule (completion order) of the run, by key
    pub trace_out: RefCell<Vec<TraceStep>>,
    pub batch_p: u32,
    pub spurious_p: u32,
    /// how the cancellation value is represented inside the `Box<dyn Any>` (see `box_token`)
    pub token_repr: u8,
    pub immediate_p: u8,
    pub immediate_salt: u64,
}

/// The cancellation value crosses the seam as `Box<dyn Any>`; callers use whatever type they like, so the simulator
/// varies it: 0 = the `Token` struct, 1 = `String`, 2 = `&'static str`, 3 = `u64`, 4 = a tuple, 5 = a unit-like marker
/// type next to a side channel (the value itself carries nothing; identity is the poll recorded when it was handed out).
pub fn box_token(repr: u8, t: &Token) -> Box<dyn std::any::Any> {
    match (repr, t) {
        (1, Token::Cancel { solve, poll }) => Box::new(format!("cancel:{solve}:{poll}")),
        (2, Token::Cancel { solve, poll }) if *poll < 4096 && *solve < 8 => Box::new(static_token(*solve, *poll)),
        (3, Token::Cancel { solve, poll }) if *solve < (1 << 16) && *poll < (1 << 40) => Box::new(((*solve as u64) << 40) | *poll),
        (4, Token::Cancel { solve, poll }) => Box::new((*solve, *poll)),
        _ => Box::new(t.clone()),
    }
}

fn static_token(solve: usize, poll: u64) -> &'static str {
    static TABLE: std::sync::OnceLock<Vec<&'static str>> = std::sync::OnceLock::new();
    let t = TABLE.get_or_init(|| {
        (0..8 * 4096usize).map(|i| &*Box::leak(format!("cancel:{}:{}", i / 4096, i % 4096).into_boxed_str())).collect()
    });
    t[solve * 4096 + poll as usize]
}

/// Inverse of `box_token`: `None` if the value is not one the simulator handed out.
pub fn unbox_token(v: &dyn std::any::Any) -> Option<Token> {
    if let Some(t) = v.downcast_ref::<Token>() {
        return Some(t.clone());
    }
    let parse = |s: &str| -> Option<Token> {
        let mut it = s.strip_prefix("cancel:")?.split(':');
        let solve = it.next()?.parse().ok()?;
        let poll = it.next()?.parse().ok()?;
        Some(Token::Cancel { solve, poll })
    };
    if let Some(s) = v.downcast_ref::<String>() {
        return parse(s);
    }
    if let Some(s) = v.downcast_ref::<&'static str>() {
        return parse(s);
    }
    if let Some(x) = v.downcast_ref::<u64>() {
        return Some(Token::Cancel { solve: (*x >> 40) as usize, poll: *x & ((1 << 40) - 1) });
    }
    if let Some((solve, poll)) = v.downcast_ref::<(usize, u64)>() {
        return Some(Token::Cancel { solve: *solve, poll: *poll });
    }
    None
}

pub const Y_CAND: u8 = 1;
pub const Y_DEPS: u8 = 2;
pub const Y_FILTER: u8 = 4;
pub const Y_SORT: u8 = 8;

impl Kind {
    pub fn bit(self) -> u8 {
        match self {
            Kind::Cand => Y_CAND,
            Kind::Deps => Y_DEPS,
            Kind::Filter => Y_FILTER,
            Kind::Sort => Y_SORT,
        }
    }
}

impl SimCore {
    pub fn log(&self, ev: Ev) {
        self.log.borrow_mut().push(ev);
    }

    pub fn seq(&self) -> usize {
        self.log.borrow().len()
    }

    pub fn yields(&self, k: Kind) -> bool {
        self.yield_mask & k.bit() != 0
    }

    /// Does this particular request suspend? A kind that yields may still answer some requests at once.
    pub fn yields_req(&self, k: Kind, key: &ReqKey) -> bool {
        if !self.yields(k) {
            return false;
        }
        if self.immediate_p == 0 {
            return true;
        }
        let h = crate::prng::mix(&[self.immediate_salt, k.bit() as u64, crate::prng::fnv(&format!("{key:?}"))]);
        (h % 8) as u8 >= self.immediate_p
    }

    fn latency(&self, kind: Kind) -> u64 {
        let mut r = self.sched.borrow_mut();
        match kind {
            Kind::Cand => 5 + r.below(40) as u64,
            Kind::Deps => {
                // heavy tail
                let base = 1 + r.below(10) as u64;
                if r.chance(1, 8) {
                    base * 50
                } else {
                    base
                }
            }
            Kind::Filter => 1,
            Kind::Sort => 1 + r.below(3) as u64,
        }
    }

    /// Called by a SimRequest on first poll.
    pub fn register(&self, rid: u64, kind: Kind, key: ReqKey, waker: Waker) {
        let due = if matches!(*self.policy.borrow(), Policy::VirtualTime) {
            self.now.get() + self.latency(kind)
        } else {
            0
        };
        let mut p = self.pending.borrow_mut();
        p.push(Pending {
            rid,
            kind,
            key,
            waker: Some(waker),
            done: false,
            due,
        });
        let n = p.iter().filter(|x| !x.done).count();
        let mut st = self.stats.borrow_mut();
        if n > st.max_in_flight {
            st.max_in_flight = n;
        }
    }

    fn complete_at(&self, idx: usize) -> ReqKey {
        let (rid, key, waker) = {
            let mut p = self.pending.borrow_mut();
            let e = &mut p[idx];
            e.done = true;
            (e.rid, e.key.clone(), e.waker.take())
        };
        self.log(Ev::Complete { rid });
        self.stats.borrow_mut().completions += 1;
        if let Some(w) = waker {
            w.wake();
        }
        key
    }

    fn open_indices(&self) -> Vec<usize> {
        self.pending
            .borrow()
            .iter()
            .enumerate()
            .filter(|(_, x)| !x.done)
            .map(|(i, _)| i)
            .collect()
    }

    /// The root future is pending and nothing woke it. Decide what happens next.
    /// Returns normally after having woken at least one task (or after a spurious wake).
    pub fn on_quiescent(&self) {
        let open = self.open_indices();
        {
            let p = self.pending.borrow();
            let rids: Vec<u64> = open.iter().map(|&i| p[i].rid).collect();
            drop(p);
            self.log(Ev::Quiescent { pending: rids });
        }
        self.stats.borrow_mut().quiescent_points += 1;
        if open.is_empty() {
            std::panic::panic_any(SimAbort::Deadlock);
        }
        let steps = self.steps.get() + 1;
        self.steps.set(steps);
        if steps > self.step_budget {
            std::panic::panic_any(SimAbort::Budget);
        }

        // Trace policy: follow the recorded steps by key.
        let is_trace = matches!(*self.policy.borrow(), Policy::Trace(_));
        if is_trace {
            let step = {
                let pol = self.policy.borrow();
                let Policy::Trace(steps) = &*pol else {
                    unreachable!()
                };
                let pos = self.trace_pos.get();
                self.trace_pos.set(pos + 1);
                steps.get(pos).cloned()
            };
            match step {
                Some(TraceStep::Spurious) => {
                    self.log(Ev::Spurious);
                    self.stats.borrow_mut().spurious += 1;
                    self.trace_out.borrow_mut().push(TraceStep::Spurious);
                    return;
                }
                Some(TraceStep::Batch(keys)) => {
                    let mut done_keys = Vec::new();
                    for k in keys {
                        let idx = {
                            let p = self.pending.borrow();
                            p.iter().position(|x| !x.done && x.key == k)
                        };
                        if let Some(i) = idx {
                            done_keys.push(self.complete_at(i));
                        }
                    }
                    if done_keys.is_empty() {
                        // nothing of this step applies any more: fall back to oldest
                        let i = self.open_indices()[0];
                        done_keys.push(self.complete_at(i));
                    }
                    self.trace_out.borrow_mut().push(TraceStep::Batch(done_keys));
                    return;
                }
                None => {
                    let i = open[0];
                    let k = self.complete_at(i);
                    self.trace_out.borrow_mut().push(TraceStep::Batch(vec![k]));
                    return;
                }
            }
        }

        // spurious wake: poll again although nothing completed
        if self.spurious_p > 0 && self.sched.borrow_mut().chance(1, self.spurious_p as usize) {
            self.log(Ev::Spurious);
            self.stats.borrow_mut().spurious += 1;
            self.trace_out.borrow_mut().push(TraceStep::Spurious);
            return;
        }

        let mut batch_keys = Vec::new();
        loop {
            let open = self.open_indices();
            if open.is_empty() {
                break;
            }
            let pick = self.pick(&open);
            batch_keys.push(self.complete_at(pick));
            // geometric batching
            if self.batch_p == 0 || !self.sched.borrow_mut().chance(1, self.batch_p as usize) {
                break;
            }
        }
        if batch_keys.len() > 1 {
            self.stats.borrow_mut().batches += 1;
        }
        self.trace_out.borrow_mut().push(TraceStep::Batch(batch_keys));
    }

    fn pick(&self, open: &[usize]) -> usize {
        let pol = self.policy.borrow().clone();
        match pol {
            Policy::Random => *self.sched.borrow_mut().pick(open),
            Policy::Fifo => open[0],
            Policy::Lifo => *open.last().unwrap(),
            Policy::VirtualTime => {
                let p = self.pending.borrow();
                let mut best = open[0];
                for &i in open {
                    if p[i].due < p[best].due {
                        best = i;
                    }
                }
                let due = p[best].due;
                drop(p);
                if due > self.now.get() {
                    self.now.set(due);
                }
                self.stats.borrow_mut().virtual_time = self.now.get();
                best
            }
            Policy::Starve(kind) => {
                let p = self.pending.borrow();
                let others: Vec<usize> = open.iter().copied().filter(|&i| p[i].kind != kind).collect();
                drop(p);
                if others.is_empty() {
                    *self.sched.borrow_mut().pick(open)
                } else {
                    *self.sched.borrow_mut().pick(&others)
                }
            }
            Policy::StarveOldest => {
                if open.len() == 1 {
                    open[0]
                } else {
                    *self.sched.borrow_mut().pick(&open[1..])
                }
            }
            Policy::Trace(_) => unreachable!(),
        }
    }

    /// `should_cancel_with_value` seam.
    pub fn poll_cancel(&self) -> Option<Token> {
        let n = self.cancel_polls.get();
        self.cancel_polls.set(n + 1);
        {
            let mut st = self.stats.borrow_mut();
            st.cancel_polls += 1;
            if n + 1 > st.max_polls_in_a_solve {
                st.max_polls_in_a_solve = n + 1;
            }
        }
        let fired = match &*self.cancel_plan.borrow() {
            Some(CancelPlan {
                at_poll,
                mode: CancelMode::Persistent,
            }) => n >= *at_poll,
            Some(CancelPlan {
                at_poll,
                mode: CancelMode::Transient,
            }) => n == *at_poll,
            None => false,
        };
        if fired {
            self.log(Ev::CancelPoll { n, fired: true });
            self.stats.borrow_mut().cancel_fired += 1;
            return Some(Token::Cancel {
                solve: self.solve_idx.get(),
                poll: n,
            });
        }
        self.log(Ev::CancelPoll { n, fired: false });
        if n > self.poll_budget {
            return Some(Token::Budget);
        }
        None
    }
}
