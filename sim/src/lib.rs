#![recursion_limit = "256"]
pub mod checks;
pub mod checks2;
pub mod checks3;
pub mod core;
pub mod gen;
pub mod internal;
pub mod known;
pub mod minimise;
pub mod orchestrate;
pub mod prng;
pub mod probes;
pub mod props;
pub mod provider;
pub mod reference;
pub mod run;
pub mod runtime;
pub mod world;

use props::Property;

pub fn all_properties() -> Vec<Box<dyn Property>> {
    vec![
        Box::new(checks::C01),
        Box::new(checks::C02),
        Box::new(checks::C03),
        Box::new(checks::C04),
        Box::new(checks::C05),
        Box::new(checks::C06),
        Box::new(checks::C07),
        Box::new(checks::C08),
        Box::new(checks::C09),
        Box::new(checks::C10),
        Box::new(checks::C11),
        Box::new(checks::C12),
        Box::new(checks::C13),
        Box::new(checks::C14),
        Box::new(checks2::C15),
        Box::new(checks2::C16),
        Box::new(checks2::C20),
    ]
}

pub fn property(id: &str) -> Option<Box<dyn Property>> {
    all_properties().into_iter().find(|p| p.id() == id)
}

pub const DEFAULT_SEED: u64 = 20260924;
