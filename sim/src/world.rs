//! The simulated universe: plain tables owned by the harness. These tables are the single source of
//! truth for the provider stub *and* for every oracle; nothing here uses resolvo types.

use serde::{Deserialize, Serialize};
use std::collections::{BTreeMap, BTreeSet};

#[derive(Clone, Debug, PartialEq, Eq, PartialOrd, Ord, Serialize, Deserialize, Hash)]
#[serde(rename_all = "lowercase")]
pub enum Req {
    Single(u32),
    Union(u32),
}

#[derive(Clone, Debug, PartialEq, Eq, Serialize, Deserialize)]
#[serde(rename_all = "lowercase")]
pub enum Hint {
    None,
    All,
    Some(Vec<u32>),
}

#[derive(Clone, Debug, PartialEq, Eq, Serialize, Deserialize)]
#[serde(rename_all = "lowercase")]
pub enum Deps {
    Known {
        requirements: Vec<Req>,
        constrains: Vec<u32>,
    },
    Unknown(u32),
}

#[derive(Clone, Debug, PartialEq, Eq, Serialize, Deserialize)]
pub struct Package {
    /// Candidate list in the order `get_candidates` returns it.
    pub candidates: Vec<u32>,
    /// Preference order imposed by `sort_candidates` (a permutation of `candidates`, best first).
    pub rank: Vec<u32>,
    pub favored: Option<u32>,
    pub locked: Option<u32>,
    /// (solvable, reason string id)
    pub excluded: Vec<(u32, u32)>,
    pub hint: Hint,
    /// `get_candidates` answers `None`.
    pub missing: bool,
}

#[derive(Clone, Debug, PartialEq, Eq, Serialize, Deserialize)]
pub struct Solvable {
    pub name: u32,
    pub deps: Deps,
}

#[derive(Clone, Debug, PartialEq, Eq, Serialize, Deserialize)]
pub struct VersionSet {
    pub name: u32,
    /// matching solvables (sorted, subset of the package's candidates)
    pub matches: Vec<u32>,
}

#[derive(Clone, Debug, PartialEq, Eq, Serialize, Deserialize, Default)]
pub struct World {
    pub packages: BTreeMap<u32, Package>,
    pub solvables: BTreeMap<u32, Solvable>,
    pub version_sets: BTreeMap<u32, VersionSet>,
    pub unions: BTreeMap<u32, Vec<u32>>,
    /// `filter_candidates` returns its result in reverse input order (the trait does not promise any order)
    #[serde(default)]
    pub filter_reversed: bool,
    /// Per package: (threshold, alternative ranking). `sort_candidates` ranks a slice of at least `threshold`
    /// candidates of that package by the alternative permutation - a provider whose ranking depends on what it is
    /// asked to compare (the trait only asks it to sort the slice it is given).
    #[serde(default)]
    pub alt_rank: BTreeMap<u32, (usize, Vec<u32>)>,
}

#[derive(Clone, Debug, PartialEq, Eq, Serialize, Deserialize, Default)]
pub struct ProblemSpec {
    pub requirements: Vec<Req>,
    pub constraints: Vec<u32>,
    pub soft: Vec<u32>,
}

impl World {
    pub fn vs_name(&self, vs: u32) -> u32 {
        self.version_sets[&vs].name
    }

    pub fn solvable_name(&self, s: u32) -> u32 {
        self.solvables[&s].name
    }

    /// Candidates as the solver obtains them (`None` => empty).
    pub fn cands(&self, name: u32) -> &[u32] {
        match self.packages.get(&name) {
            Some(p) if !p.missing => &p.candidates,
            _ => &[],
        }
    }

    pub fn vs_matches(&self, vs: u32, s: u32) -> bool {
        self.version_sets[&vs].matches.binary_search(&s).is_ok()
    }

    /// What `filter_candidates(list, vs, inverse)` answers.
    pub fn filter(&self, list: &[u32], vs: u32, inverse: bool) -> Vec<u32> {
        let mut out: Vec<u32> = list
            .iter()
            .copied()
            .filter(|&s| self.vs_matches(vs, s) != inverse)
            .collect();
        if self.filter_reversed {
            out.reverse();
        }
        out
    }

    /// Matching candidates of a version set as the provider's `filter_candidates` defines them.
    pub fn matching(&self, vs: u32) -> Vec<u32> {
        self.filter(self.cands(self.vs_name(vs)), vs, false)
    }

    pub fn non_matching(&self, vs: u32) -> Vec<u32> {
        self.filter(self.cands(self.vs_name(vs)), vs, true)
    }

    pub fn rank_pos(&self, s: u32) -> usize {
        let name = self.solvable_name(s);
        self.packages[&name]
            .rank
            .iter()
            .position(|&x| x == s)
            .unwrap_or(usize::MAX)
    }

    /// What `sort_candidates` does to a list: the ranking policy is looked up once, for the package of the slice (its
    /// first element) and for the size of the slice; then a stable sort by position in that ranking (solvables the
    /// ranking does not know keep their relative order at the end).
    pub fn sort_by_rank(&self, xs: &mut [u32]) {
        let Some(&first) = xs.first() else { return };
        let name = self.solvable_name(first);
        let rank: &Vec<u32> = match self.alt_rank.get(&name) {
            Some((t, alt)) if xs.len() >= *t => alt,
            _ => &self.packages[&name].rank,
        };
        xs.sort_by_key(|&s| rank.iter().position(|&x| x == s).unwrap_or(usize::MAX));
    }

    /// Documented preference order for a version set: matching candidates in `sort_candidates` order with
    /// the favored candidate moved to the front (others keep their relative order).
    pub fn sorted(&self, vs: u32) -> Vec<u32> {
        let mut m = self.matching(vs);
        self.sort_by_rank(&mut m);
        let name = self.vs_name(vs);
        if let Some(p) = self.packages.get(&name) {
            if !p.missing {
                if let Some(f) = p.favored {
                    if let Some(pos) = m.iter().position(|&x| x == f) {
                        let x = m.remove(pos);
                        m.insert(0, x);
                    }
                }
            }
        }
        m
    }

    pub fn req_version_sets(&self, r: &Req) -> Vec<u32> {
        match r {
            Req::Single(v) => vec![*v],
            Req::Union(u) => self.unions[u].clone(),
        }
    }

    /// Candidates satisfying a requirement in preference order (union members in listed order).
    pub fn req_cands(&self, r: &Req) -> Vec<u32> {
        let mut out = Vec::new();
        for vs in self.req_version_sets(r) {
            out.extend(self.sorted(vs));
        }
        out
    }

    /// Same as set (no order).
    pub fn req_cand_set(&self, r: &Req) -> BTreeSet<u32> {
        let mut out = BTreeSet::new();
        for vs in self.req_version_sets(r) {
            out.extend(self.matching(vs));
        }
        out
    }

    pub fn is_excluded(&self, s: u32) -> bool {
        let name = self.solvable_name(s);
        match self.packages.get(&name) {
            Some(p) if !p.missing => p.excluded.iter().any(|(x, _)| *x == s),
            _ => false,
        }
    }

    pub fn locked_out(&self, s: u32) -> bool {
        let name = self.solvable_name(s);
        match self.packages.get(&name) {
            Some(p) if !p.missing => match p.locked {
                Some(l) => l != s && p.candidates.contains(&s),
                None => false,
            },
            _ => false,
        }
    }

    pub fn deps_unknown(&self, s: u32) -> bool {
        matches!(self.solvables[&s].deps, Deps::Unknown(_))
    }

    pub fn known_deps(&self, s: u32) -> Option<(&Vec<Req>, &Vec<u32>)> {
        match &self.solvables[&s].deps {
            Deps::Known {
                requirements,
                constrains,
            } => Some((requirements, constrains)),
            Deps::Unknown(_) => None,
        }
    }

    /// Names mentioned (requirement, union member or constrains) by a dependency set.
    pub fn names_mentioned(&self, reqs: &[Req], constrains: &[u32]) -> BTreeSet<u32> {
        let mut out = BTreeSet::new();
        for r in reqs {
            for vs in self.req_version_sets(r) {
                out.insert(self.vs_name(vs));
            }
        }
        for vs in constrains {
            out.insert(self.vs_name(*vs));
        }
        out
    }

    pub fn hinted(&self, s: u32) -> bool {
        let name = self.solvable_name(s);
        match self.packages.get(&name) {
            Some(p) if !p.missing => match &p.hint {
                Hint::None => false,
                Hint::All => p.candidates.contains(&s),
                Hint::Some(v) => v.contains(&s),
            },
            _ => false,
        }
    }

    /// Is `s` announced as cheaply available by the candidates answer of package `n`?
    pub fn hinted_by(&self, n: u32, s: u32) -> bool {
        match self.packages.get(&n) {
            Some(p) if !p.missing => match &p.hint {
                Hint::None => false,
                Hint::All => p.candidates.contains(&s),
                Hint::Some(v) => v.contains(&s),
            },
            _ => false,
        }
    }

    pub fn n_solvables(&self) -> usize {
        self.solvables.len()
    }

    /// A structural hash of the world that ignores nothing: used for "distinct case" counting.
    pub fn shape_hash(&self) -> u64 {
        let s = serde_json::to_string(self).unwrap();
        crate::prng::fnv(&s)
    }

    /// Sanity check of well-formedness (generator bug guard; never a verdict).
    pub fn check_well_formed(&self) -> Result<(), String> {
        for (n, p) in &self.packages {
            let cs: BTreeSet<u32> = p.candidates.iter().copied().collect();
            if cs.len() != p.candidates.len() {
                return Err(format!("package {n}: duplicate candidates"));
            }
            let rs: BTreeSet<u32> = p.rank.iter().copied().collect();
            if rs != cs || p.rank.len() != p.candidates.len() {
                return Err(format!("package {n}: rank is not a permutation"));
            }
            for c in &p.candidates {
                match self.solvables.get(c) {
                    Some(s) if s.name == *n => {}
                    _ => return Err(format!("package {n}: candidate {c} has another name")),
                }
            }
            for x in p.favored.iter().chain(p.locked.iter()) {
                if !cs.contains(x) {
                    return Err(format!("package {n}: favored/locked {x} not a candidate"));
                }
            }
            for (x, _) in &p.excluded {
                if !cs.contains(x) {
                    return Err(format!("package {n}: excluded {x} not a candidate"));
                }
            }
            // `HintDependenciesAvailable::Some` is a plain list of solvable ids: a provider may announce solvables of
            // other packages with the answer for this one (bulk loaders do), so only existence is required
            if let Hint::Some(v) = &p.hint {
                for x in v {
                    if !self.solvables.contains_key(x) {
                        return Err(format!("package {n}: hinted {x} is not a solvable"));
                    }
                }
            }
            if p.missing && !p.candidates.is_empty() {
                return Err(format!("package {n}: missing with candidates"));
            }
        }
        for (id, s) in &self.solvables {
            match self.packages.get(&s.name) {
                Some(p) if p.candidates.contains(id) => {}
                _ => return Err(format!("solvable {id}: not a candidate of its package")),
            }
            if let Deps::Known {
                requirements,
                constrains,
            } = &s.deps
            {
                for r in requirements {
                    match r {
                        Req::Single(v) => {
                            if !self.version_sets.contains_key(v) {
                                return Err(format!("solvable {id}: unknown vs {v}"));
                            }
                        }
                        Req::Union(u) => {
                            if !self.unions.contains_key(u) {
                                return Err(format!("solvable {id}: unknown union {u}"));
                            }
                        }
                    }
                }
                for v in constrains {
                    if !self.version_sets.contains_key(v) {
                        return Err(format!("solvable {id}: unknown vs {v}"));
                    }
                }
            }
        }
        for (id, v) in &self.version_sets {
            if !self.packages.contains_key(&v.name) {
                return Err(format!("vs {id}: unknown package"));
            }
            let cs = &self.packages[&v.name].candidates;
            let mut prev = None;
            for m in &v.matches {
                if !cs.contains(m) {
                    return Err(format!("vs {id}: match {m} not a candidate"));
                }
                if let Some(p) = prev {
                    if p >= *m {
                        return Err(format!("vs {id}: matches not sorted"));
                    }
                }
                prev = Some(*m);
            }
        }
        for (id, u) in &self.unions {
            if u.len() < 2 {
                return Err(format!("union {id}: fewer than 2 members"));
            }
            for v in u {
                if !self.version_sets.contains_key(v) {
                    return Err(format!("union {id}: unknown vs {v}"));
                }
            }
        }
        Ok(())
    }

    pub fn check_problem(&self, p: &ProblemSpec) -> Result<(), String> {
        for r in &p.requirements {
            match r {
                Req::Single(v) if !self.version_sets.contains_key(v) => {
                    return Err(format!("problem: unknown vs {v}"))
                }
                Req::Union(u) if !self.unions.contains_key(u) => {
                    return Err(format!("problem: unknown union {u}"))
                }
                _ => {}
            }
        }
        for v in &p.constraints {
            if !self.version_sets.contains_key(v) {
                return Err(format!("problem: unknown vs {v}"));
            }
        }
        for s in &p.soft {
            if !self.solvables.contains_key(s) {
                return Err(format!("problem: unknown soft solvable {s}"));
            }
        }
        Ok(())
    }
}
