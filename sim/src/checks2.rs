//! Properties C15 (at-most-one encoding family), C16 (snapshot), C20 (SolverCache).

use crate::gen::gen_config;
use crate::prng::Rng;
use crate::props::*;
use crate::run::{execute, Outcome, Scenario};
use crate::world::{Deps, Hint, Package, ProblemSpec, Req, Solvable, VersionSet, World};
use std::collections::BTreeSet;

pub use crate::checks3::{C16, C20};

// =============================================================================================
// C15 — one solvable per package for any candidate count and discovery order

pub struct C15;

/// World family: package 0 with n candidates revealed through version sets that all contain the
/// anchor; revealer packages 1.. (one candidate each) carry some of the revealing requirements.
fn c15_world(rng: &mut Rng, n: usize, anchor_idx: usize) -> (World, Vec<Req>, Vec<u32>) {
    let mut w = World::default();
    let cands: Vec<u32> = (0..n as u32).collect();
    let mut order = cands.clone();
    rng.shuffle(&mut order);
    let mut rank = cands.clone();
    rng.shuffle(&mut rank);
    for &c in &cands {
        w.solvables.insert(
            c,
            Solvable {
                name: 0,
                deps: Deps::Known {
                    requirements: vec![],
                    constrains: vec![],
                },
            },
        );
    }
    w.packages.insert(
        0,
        Package {
            candidates: order.clone(),
            rank,
            favored: None,
            locked: None,
            excluded: vec![],
            hint: match rng.below(4) {
                0 => Hint::All,
                _ => Hint::None,
            },
            missing: false,
        },
    );
    let anchor = cands[anchor_idx];
    // covering version sets, each containing the anchor
    let mut groups: Vec<Vec<u32>> = Vec::new();
    let mut covered: BTreeSet<u32> = BTreeSet::new();
    covered.insert(anchor);
    let style = rng.below(4);
    while covered.len() < n {
        let mut g: BTreeSet<u32> = BTreeSet::new();
        g.insert(anchor);
        match style {
            0 => {
                // singletons + anchor
                let missing: Vec<u32> = cands.iter().copied().filter(|c| !covered.contains(c)).collect();
                g.insert(*rng.pick(&missing));
            }
            1 => {
                // ranges in candidate-list order
                let a = rng.below(n);
                let span = rng.range(1, 8);
                let b = rng.range(a, (a + span).min(n - 1));
                for x in &order[a..=b] {
                    g.insert(*x);
                }
                let missing: Vec<u32> = cands.iter().copied().filter(|c| !covered.contains(c)).collect();
                g.insert(*rng.pick(&missing));
            }
            2 => {
                // random overlapping subsets
                for c in &cands {
                    if rng.chance(1, 3) {
                        g.insert(*c);
                    }
                }
                let missing: Vec<u32> = cands.iter().copied().filter(|c| !covered.contains(c)).collect();
                g.insert(*rng.pick(&missing));
            }
            _ => {
                // the full set
                g.extend(cands.iter().copied());
            }
        }
        covered.extend(g.iter().copied());
        groups.push(g.into_iter().collect());
    }
    if rng.chance(1, 2) {
        groups.push(cands.clone());
    }
    rng.shuffle(&mut groups);
    let mut next_vs = 0u32;
    let mut root_reqs: Vec<Req> = Vec::new();
    let mut next_name = 1u32;
    let mut next_s = n as u32;
    let mut vs_ids = Vec::new();
    for g in groups {
        let id = next_vs;
        next_vs += 1;
        w.version_sets.insert(id, VersionSet { name: 0, matches: g });
        vs_ids.push(id);
        if rng.chance(1, 2) {
            root_reqs.push(Req::Single(id));
        } else {
            // revealer package
            let name = next_name;
            next_name += 1;
            let s = next_s;
            next_s += 1;
            w.solvables.insert(
                s,
                Solvable {
                    name,
                    deps: Deps::Known {
                        requirements: vec![Req::Single(id)],
                        constrains: vec![],
                    },
                },
            );
            w.packages.insert(
                name,
                Package {
                    candidates: vec![s],
                    rank: vec![s],
                    favored: None,
                    locked: None,
                    excluded: vec![],
                    hint: if rng.chance(1, 3) { Hint::All } else { Hint::None },
                    missing: false,
                },
            );
            let rv = next_vs;
            next_vs += 1;
            w.version_sets.insert(rv, VersionSet { name, matches: vec![s] });
            root_reqs.push(Req::Single(rv));
        }
    }
    // exact version sets for every candidate
    let mut exact = Vec::new();
    for &c in &cands {
        let id = next_vs;
        next_vs += 1;
        w.version_sets.insert(id, VersionSet { name: 0, matches: vec![c] });
        exact.push(id);
    }
    (w, root_reqs, exact)
}

impl Property for C15 {
    fn id(&self) -> &'static str {
        "C15"
    }
    fn runs(&self, tier: Tier) -> u64 {
        match tier {
            Tier::Quick => 30_000,
            Tier::Thorough => 500_000,
        }
    }
    fn rule(&self) -> &'static str {
        "workload family run through the simulator: one package with n candidates (n in 1..40 quick, 1..130 thorough, biased to 2^k-1, 2^k, 2^k+1), revealed by seeded covering version sets (singletons, ranges, overlapping subsets, full set; all containing the anchor) spread over the root and over revealer solvables, registration order varied by rank permutation, requirement order and (async) completion order; per seed 8 pair problems 'exactly p_i and exactly p_j' and 3 single problems (all pairs when n <= 24 in the thorough tier); oracle: pair => Unsolvable, single => Ok(S) with exactly p_i from the package; non-trivial = n >= 3; distinct = (world, trace, plan) hash"
    }
    fn gen(&self, seed: u64, tier: Tier) -> Vec<Scenario> {
        let mut r = Rng::stream(seed, "world");
        let max_n = if tier == Tier::Quick { 40 } else { 130 };
        let n = if r.chance(1, 2) {
            let k = r.range(1, if tier == Tier::Quick { 5 } else { 7 });
            let b = 1usize << k;
            (b + r.below(3)).saturating_sub(1).clamp(1, max_n)
        } else {
            r.range(1, max_n)
        };
        let mut cases: Vec<(usize, Option<usize>)> = Vec::new();
        if n >= 2 {
            if tier == Tier::Thorough && n <= 24 && r.chance(1, 4) {
                for i in 0..n {
                    for j in (i + 1)..n {
                        cases.push((i, Some(j)));
                    }
                }
            } else {
                for _ in 0..8 {
                    let i = r.below(n);
                    let mut j = r.below(n);
                    if i == j {
                        j = (j + 1) % n;
                    }
                    cases.push((i.min(j), Some(i.max(j))));
                }
            }
        }
        for _ in 0..3 {
            cases.push((r.below(n), None));
        }
        let mut out = Vec::new();
        let mut cr = Rng::stream(seed, "config");
        let world_seed = r.next_u64();
        for (i, j) in cases {
            // the same covering structure for all cases of a seed, anchored at i
            let mut wr = Rng::new(world_seed);
            let (w, mut reqs, exact) = c15_world(&mut wr, n, i);
            let mut pr = Rng::new(r.next_u64());
            let pos = pr.below(reqs.len() + 1);
            reqs.insert(pos, Req::Single(exact[i]));
            if let Some(j) = j {
                let pos = pr.below(reqs.len() + 1);
                reqs.insert(pos, Req::Single(exact[j]));
            }
            let mut sc = Scenario::basic(
                w,
                ProblemSpec {
                    requirements: reqs,
                    constraints: vec![],
                    soft: vec![],
                },
            );
            gen_config(&mut cr, &mut sc, None);
            sc.hash_salt = cr.next_u64();
            out.push(sc);
        }
        out
    }
    fn judge(&self, sc: &Scenario) -> Verdict {
        let w = &sc.world;
        let p = &sc.solves[0].problem;
        // exact requirements: root Single requirements whose version set matches exactly one candidate
        let mut exact: Vec<(u32, u32)> = Vec::new(); // (name, solvable)
        for r in &p.requirements {
            if let Req::Single(vs) = r {
                let m = w.matching(*vs);
                if m.len() == 1 && w.version_sets[vs].matches.len() == 1 {
                    exact.push((w.vs_name(*vs), m[0]));
                }
            }
        }
        let pair = exact
            .iter()
            .enumerate()
            .find_map(|(i, a)| exact[i + 1..].iter().find(|b| b.0 == a.0 && b.1 != a.1).map(|b| (*a, *b)));
        let rec = execute(sc);
        let mut v = base_verdict(sc, &rec);
        let o = &rec.outcomes[0];
        if o.is_crash() {
            v.aborted_other = true;
            return v;
        }
        v.evaluated = true;
        v.nontrivial = w.packages.values().any(|p| p.candidates.len() >= 3);
        match pair {
            Some((a, b)) => {
                if let Outcome::Ok(s) = o {
                    v.violate("pair-accepted", format!("problem requires exactly {} and exactly {} of package {} but solve returned {s:?}", a.1, b.1, a.0));
                }
            }
            None => {
                if exact.is_empty() {
                    v.evaluated = false;
                    v.skipped_pre = true;
                    return v;
                }
                match ref_verdict(w, p) {
                    Some(true) => match o {
                        Outcome::Ok(s) => {
                            for (name, x) in &exact {
                                let inst: Vec<u32> = s.iter().copied().filter(|c| w.solvable_name(*c) == *name).collect();
                                if inst != vec![*x] {
                                    v.violate("single-wrong", format!("problem requires exactly {x} of package {name}; installed from that package: {inst:?}"));
                                }
                            }
                        }
                        Outcome::Unsolvable(_) => v.violate("single-rejected", format!("requiring exactly one candidate {:?} is satisfiable but solve says Unsolvable", exact)),
                        _ => {}
                    },
                    Some(false) => {
                        v.evaluated = false;
                        v.skipped_pre = true;
                    }
                    None => {
                        v.evaluated = false;
                        v.inconclusive = true;
                    }
                }
            }
        }
        v
    }
}
