//! Properties C15 (at-most-one encoding family), C16 (snapshot), C20 (SolverCache).

use crate::gen::gen_config;
use crate::prng::Rng;
use crate::props::*;
use crate::run::{execute, Outcome, Scenario};
use crate::world::{Deps, Hint, Package, ProblemSpec, Req, Solvable, VersionSet, World};
use std::collections::BTreeSet;

pub use crate::checks3::{C16, C20};

// =============================================================================================
// C15 — one solvable per package for any candidate count and discovery order

pub struct C15;

/// Small builder for the C15 family.
struct Fam {
    w: World,
    next_name: u32,
    next_s: u32,
    next_vs: u32,
    next_union: u32,
}

impl Fam {
    fn vs(&mut self, name: u32, mut matches: Vec<u32>) -> u32 {
        matches.sort();
        matches.dedup();
        let id = self.next_vs;
        self.next_vs += 1;
        self.w.version_sets.insert(id, VersionSet { name, matches });
        id
    }
    /// new package with one candidate per entry of `deps`; returns (name, candidates)
    fn pkg(&mut self, deps: Vec<Deps>, hint: Hint) -> (u32, Vec<u32>) {
        let name = self.next_name;
        self.next_name += 1;
        let mut cands = Vec::new();
        for d in deps {
            let s = self.next_s;
            self.next_s += 1;
            self.w.solvables.insert(s, Solvable { name, deps: d });
            cands.push(s);
        }
        self.w.packages.insert(
            name,
            Package {
                candidates: cands.clone(),
                rank: cands.clone(),
                favored: None,
                locked: None,
                excluded: vec![],
                hint,
                missing: false,
            },
        );
        (name, cands)
    }
    fn union(&mut self, members: Vec<u32>) -> Req {
        let id = self.next_union;
        self.next_union += 1;
        self.w.unions.insert(id, members);
        Req::Union(id)
    }
}

fn known(requirements: Vec<Req>, constrains: Vec<u32>) -> Deps {
    Deps::Known {
        requirements,
        constrains,
    }
}

/// World family: package 0 with n candidates revealed through version sets that all contain the
/// anchor. The revealing requirements sit at the root, inside revealer solvables, or behind unions whose
/// other alternative is dead; an optional decoy package temporarily constrains package 0 and is
/// abandoned after a conflict, so candidates are also discovered while they are assigned false.
/// Returns (world, root requirements, exact version set per candidate index).
pub fn c15_world(rng: &mut Rng, n: usize, anchor_idx: usize) -> (World, Vec<Req>, Vec<u32>) {
    let mut f = Fam {
        w: World::default(),
        next_name: 1,
        next_s: n as u32,
        next_vs: 0,
        next_union: 0,
    };
    let cands: Vec<u32> = (0..n as u32).collect();
    let mut order = cands.clone();
    rng.shuffle(&mut order);
    let mut rank = cands.clone();
    rng.shuffle(&mut rank);
    for &c in &cands {
        f.w.solvables.insert(c, Solvable { name: 0, deps: known(vec![], vec![]) });
    }
    f.w.packages.insert(
        0,
        Package {
            candidates: order.clone(),
            rank,
            favored: None,
            locked: None,
            excluded: vec![],
            hint: match rng.below(4) {
                0 => Hint::All,
                _ => Hint::None,
            },
            missing: false,
        },
    );
    let anchor = cands[anchor_idx];
    // On some seeds a few candidates other than the anchor turn out to be unusable only when the solver looks at them
    // (Unknown dependencies): they are registered with the package's tracker first and excluded afterwards, while
    // further candidates are still to be revealed.
    if n >= 3 && rng.chance(1, 3) {
        let mut k = 0;
        for &c in &cands {
            if c != anchor && k < 3 && rng.chance(1, 4) {
                f.w.solvables.get_mut(&c).unwrap().deps = Deps::Unknown(0);
                k += 1;
            }
        }
    }
    // a dead alternative for unions: a package whose only candidate has Unknown dependencies, or a version
    // set that matches nothing
    let dead_vs = if rng.chance(1, 2) {
        let (dn, dc) = f.pkg(vec![Deps::Unknown(0)], Hint::None);
        f.vs(dn, dc)
    } else {
        let (dn, _) = f.pkg(vec![known(vec![], vec![])], Hint::None);
        f.vs(dn, vec![])
    };
    let use_unions = rng.chance(1, 3);
    // covering version sets, each containing the anchor
    let mut groups: Vec<Vec<u32>> = Vec::new();
    let mut covered: BTreeSet<u32> = BTreeSet::new();
    covered.insert(anchor);
    let style = rng.below(4);
    while covered.len() < n {
        let mut g: BTreeSet<u32> = BTreeSet::new();
        g.insert(anchor);
        let missing: Vec<u32> = cands.iter().copied().filter(|c| !covered.contains(c)).collect();
        g.insert(*rng.pick(&missing));
        match style {
            0 => {}
            1 => {
                let a = rng.below(n);
                let span = rng.range(1, 8);
                let b = rng.range(a, (a + span).min(n - 1));
                for x in &order[a..=b] {
                    g.insert(*x);
                }
            }
            2 => {
                for c in &cands {
                    if rng.chance(1, 3) {
                        g.insert(*c);
                    }
                }
            }
            _ => g.extend(cands.iter().copied()),
        }
        covered.extend(g.iter().copied());
        groups.push(g.into_iter().collect());
    }
    if rng.chance(1, 2) {
        groups.push(cands.clone());
    }
    rng.shuffle(&mut groups);
    let mut root_reqs: Vec<Req> = Vec::new();
    // wrap a version set into a requirement, possibly a union with the dead alternative, or a union with another
    // version set of the same package that overlaps it (a candidate then occurs twice within one requirement)
    let overlap_pool: Vec<Vec<u32>> = groups.clone();
    let wrap = |f: &mut Fam, rng: &mut Rng, vs: u32| -> Req {
        if n >= 2 && rng.chance(1, 6) {
            let mut other: Vec<u32> = rng.pick(&overlap_pool).clone();
            if rng.chance(1, 2) {
                other.truncate(rng.range(1, other.len()));
            }
            let ovs = f.vs(0, other);
            return if rng.chance(1, 2) { f.union(vec![vs, ovs]) } else { f.union(vec![ovs, vs]) };
        }
        if use_unions && rng.chance(1, 2) {
            if rng.chance(1, 2) {
                f.union(vec![dead_vs, vs])
            } else {
                f.union(vec![vs, dead_vs])
            }
        } else {
            Req::Single(vs)
        }
    };
    // put a requirement at the root or behind a (chain of) revealer solvable(s)
    let place = |f: &mut Fam, rng: &mut Rng, root_reqs: &mut Vec<Req>, r: Req| {
        let mut r = r;
        let depth = match rng.below(4) {
            0 | 1 => 0,
            2 => 1,
            _ => 2,
        };
        for _ in 0..depth {
            let hint = if rng.chance(1, 3) { Hint::All } else { Hint::None };
            let (name, c) = f.pkg(vec![known(vec![r], vec![])], hint);
            r = Req::Single(f.vs(name, c));
        }
        root_reqs.push(r);
    };
    // optional decoy: t1 (preferred) constrains package 0 to a subset and is abandoned after a conflict,
    // while it is selected further revealing requirements are encoded
    let decoy = n >= 2 && rng.chance(2, 5);
    let mut decoy_reveal: Vec<Req> = Vec::new();
    for g in groups {
        let id = f.vs(0, g);
        let r = wrap(&mut f, rng, id);
        if decoy && rng.chance(1, 2) {
            decoy_reveal.push(r);
        } else {
            place(&mut f, rng, &mut root_reqs, r);
        }
    }
    if decoy {
        let mut subset: Vec<u32> = cands.iter().copied().filter(|_| rng.chance(1, 2)).collect();
        subset.push(anchor);
        let keep = f.vs(0, subset);
        // T = {t1, t2}; Z = {z1} with z1 constraining T to t2; W = {w1} requiring the decoy reveals and Z
        let t_name = f.next_name;
        let t1 = f.next_s;
        let t2 = f.next_s + 1;
        // reserve ids for T by creating it last; create Z and W first with forward references
        f.next_name += 1;
        f.next_s += 2;
        let only_t2 = f.vs(t_name, vec![t2]);
        let (z_name, zc) = f.pkg(vec![known(vec![], vec![only_t2])], Hint::None);
        let z_vs = f.vs(z_name, zc);
        let mut w_reqs = decoy_reveal.clone();
        w_reqs.push(Req::Single(z_vs));
        rng.shuffle(&mut w_reqs);
        let (w_name, wc) = f.pkg(vec![known(w_reqs, vec![])], if rng.chance(1, 3) { Hint::All } else { Hint::None });
        let w_vs = f.vs(w_name, wc);
        f.w.solvables.insert(t1, Solvable { name: t_name, deps: known(vec![Req::Single(w_vs)], vec![keep]) });
        f.w.solvables.insert(t2, Solvable { name: t_name, deps: known(decoy_reveal.clone(), vec![]) });
        f.w.packages.insert(
            t_name,
            Package {
                candidates: vec![t1, t2],
                rank: vec![t1, t2],
                favored: None,
                locked: None,
                excluded: vec![],
                hint: Hint::None,
                missing: false,
            },
        );
        let t_vs = f.vs(t_name, vec![t1, t2]);
        let pos = rng.below(root_reqs.len() + 1);
        root_reqs.insert(pos, Req::Single(t_vs));
    }
    // exact version sets for every candidate (the caller adds the ones it needs to the problem)
    let mut exact = Vec::new();
    for &c in &cands {
        exact.push(f.vs(0, vec![c]));
    }
    (f.w, root_reqs, exact)
}

/// Second family: the pair is required through a *late, mandatory* revealer - every candidate of a package F
/// the root requires needs (through its own single-candidate package D) exactly p_j - while constrainer
/// packages A_m, some of whose preferred candidates constrain package 0 or F away and are abandoned after
/// conflicts, make the solver restart and backtrack. Candidates of package 0 are therefore discovered at deep
/// levels, also while they are temporarily assigned false.
fn c15_embedded_world(rng: &mut Rng, n: usize, i: usize, j: Option<usize>) -> (World, Vec<Req>) {
    let mut f = Fam {
        w: World::default(),
        next_name: 1,
        next_s: n as u32,
        next_vs: 0,
        next_union: 0,
    };
    let cands: Vec<u32> = (0..n as u32).collect();
    let mut order = cands.clone();
    rng.shuffle(&mut order);
    let mut rank = cands.clone();
    rng.shuffle(&mut rank);
    for &c in &cands {
        f.w.solvables.insert(c, Solvable { name: 0, deps: known(vec![], vec![]) });
    }
    f.w.packages.insert(
        0,
        Package {
            candidates: order,
            rank,
            favored: None,
            locked: None,
            excluded: vec![],
            hint: if rng.chance(1, 4) { Hint::All } else { Hint::None },
            missing: false,
        },
    );
    let exact_i = f.vs(0, vec![cands[i]]);
    // what the late revealers require: exactly p_j (pair problems) or a set containing p_i (single problems)
    let late_target = match j {
        Some(j) => f.vs(0, vec![cands[j]]),
        None => {
            let mut g: Vec<u32> = cands.iter().copied().filter(|_| rng.chance(1, 2)).collect();
            g.push(cands[i]);
            f.vs(0, g)
        }
    };
    // F: every candidate needs its own D_k, which needs the late target
    let k = rng.range(2, 3);
    let f_name = f.next_name;
    f.next_name += 1;
    let f_cands: Vec<u32> = (0..k as u32).map(|x| f.next_s + x).collect();
    f.next_s += k as u32;
    let mut f_deps = Vec::new();
    for (idx, fc) in f_cands.iter().enumerate() {
        let (dn, dc) = f.pkg(vec![known(vec![Req::Single(late_target)], vec![])], if rng.chance(1, 4) { Hint::All } else { Hint::None });
        let d_vs = f.vs(dn, dc);
        let mut reqs = vec![Req::Single(d_vs)];
        // a trap on the preferred candidates: G's only candidate constrains F away from this candidate
        if idx + 1 < f_cands.len() && rng.chance(1, 2) {
            let others: Vec<u32> = f_cands.iter().copied().filter(|x| x != fc).collect();
            let not_me = f.vs(f_name, others);
            let (gn, gc) = f.pkg(vec![known(vec![], vec![not_me])], Hint::None);
            let g_vs = f.vs(gn, gc);
            if rng.chance(1, 2) {
                reqs.insert(0, Req::Single(g_vs));
            } else {
                reqs.push(Req::Single(g_vs));
            }
        }
        f_deps.push(known(reqs, vec![]));
    }
    for (fc, d) in f_cands.iter().zip(f_deps) {
        f.w.solvables.insert(*fc, Solvable { name: f_name, deps: d });
    }
    f.w.packages.insert(
        f_name,
        Package {
            candidates: f_cands.clone(),
            rank: f_cands.clone(),
            favored: None,
            locked: None,
            excluded: vec![],
            hint: Hint::None,
            missing: false,
        },
    );
    let f_any = f.vs(f_name, f_cands.clone());
    let mut root_reqs = vec![Req::Single(f_any)];
    // constrainer packages
    for _ in 0..rng.range(1, 3) {
        let kc = rng.range(2, 3);
        let mut deps = Vec::new();
        for c in 0..kc {
            let mut cons = Vec::new();
            if c + 1 < kc {
                // preferred candidates constrain package 0 (and sometimes F) to a random subset
                if rng.chance(2, 3) {
                    let mut sub: Vec<u32> = cands.iter().copied().filter(|_| rng.chance(1, 2)).collect();
                    if rng.chance(1, 2) {
                        sub.push(cands[i]);
                    }
                    cons.push(f.vs(0, sub));
                }
                if rng.chance(1, 3) {
                    let sub: Vec<u32> = f_cands.iter().copied().filter(|_| rng.chance(1, 2)).collect();
                    cons.push(f.vs(f_name, sub));
                }
            }
            deps.push(known(vec![], cons));
        }
        let (an, ac) = f.pkg(deps, Hint::None);
        let a_any = f.vs(an, ac);
        root_reqs.push(Req::Single(a_any));
    }
    // exactly p_i: at the root or behind a revealer
    if rng.chance(1, 2) {
        root_reqs.push(Req::Single(exact_i));
    } else {
        let (rn, rc) = f.pkg(vec![known(vec![Req::Single(exact_i)], vec![])], Hint::None);
        let r_vs = f.vs(rn, rc);
        root_reqs.push(Req::Single(r_vs));
    }
    rng.shuffle(&mut root_reqs);
    (f.w, root_reqs)
}

impl Property for C15 {
    fn id(&self) -> &'static str {
        "C15"
    }
    fn runs(&self, tier: Tier) -> u64 {
        match tier {
            Tier::Quick => 30_000,
            Tier::Thorough => 500_000,
        }
    }
    fn rule(&self) -> &'static str {
        "workload families run through the simulator: (1) one package with n candidates (n in 1..40 quick, 1..130 thorough, biased to 2^k-1, 2^k, 2^k+1), revealed by seeded covering version sets (singletons, ranges, overlapping subsets, full set; all containing the anchor) spread over the root and over revealer solvables, registration order varied by rank permutation, requirement order and (async) completion order; per seed 8 pair problems 'exactly p_i and exactly p_j' and 3 single problems (all pairs when n <= 24 in the thorough tier); the revealing requirements sit at the root, behind chains of revealer solvables or behind unions whose other alternative is dead, and an optional decoy temporarily constrains the package and is abandoned after a conflict; (2) embedded family (one seed in three, n <= 8): the second candidate is required through a late mandatory revealer below a package with several candidates, next to constrainer packages that force restarts and backtracking, so candidates are discovered at deep levels and while assigned false; oracle (reference-decided): a problem that needs two candidates of one package => Unsolvable, otherwise Ok(S) valid with one solvable per package; on a third of the seeds up to three candidates other than the anchor have Unknown dependencies (registered first, excluded when looked at, while further candidates are still to be revealed); non-trivial = n >= 3; distinct = (world, trace, plan) hash"
    }
    fn gen(&self, seed: u64, tier: Tier) -> Vec<Scenario> {
        let mut r = Rng::stream(seed, "world");
        let max_n = if tier == Tier::Quick { 40 } else { 130 };
        let n = if r.chance(1, 2) {
            let k = r.range(1, if tier == Tier::Quick { 5 } else { 7 });
            let b = 1usize << k;
            (b + r.below(3)).saturating_sub(1).clamp(1, max_n)
        } else {
            r.range(1, max_n)
        };
        let mut cases: Vec<(usize, Option<usize>)> = Vec::new();
        if n >= 2 {
            if tier == Tier::Thorough && n <= 24 && r.chance(1, 4) {
                for i in 0..n {
                    for j in (i + 1)..n {
                        cases.push((i, Some(j)));
                    }
                }
            } else {
                for _ in 0..8 {
                    let i = r.below(n);
                    let mut j = r.below(n);
                    if i == j {
                        j = (j + 1) % n;
                    }
                    cases.push((i.min(j), Some(i.max(j))));
                }
            }
        }
        for _ in 0..3 {
            cases.push((r.below(n), None));
        }
        let mut out = Vec::new();
        let mut cr = Rng::stream(seed, "config");
        let world_seed = r.next_u64();
        let embedded = r.chance(1, 3);
        for (i, j) in cases {
            if embedded {
                let mut wr = Rng::new(r.next_u64());
                let ne = n.min(8);
                let ie = i % ne;
                let je = j.map(|j| j % ne).filter(|j| *j != ie).or(j.map(|_| (ie + 1) % ne)).filter(|_| ne >= 2);
                let (w, reqs) = c15_embedded_world(&mut wr, ne, ie, je);
                let mut sc = Scenario::basic(
                    w,
                    ProblemSpec {
                        requirements: reqs,
                        constraints: vec![],
                        soft: vec![],
                    },
                );
                gen_config(&mut cr, &mut sc, None);
                sc.hash_salt = cr.next_u64();
                sc.capture_state = true;
                out.push(sc);
                continue;
            }
            // the same covering structure for all cases of a seed, anchored at i
            let mut wr = Rng::new(world_seed);
            let (w, mut reqs, exact) = c15_world(&mut wr, n, i);
            let mut w = w;
            let mut pr = Rng::new(r.next_u64());
            let mut wanted = vec![exact[i]];
            if let Some(j) = j {
                wanted.push(exact[j]);
            }
            for e in wanted {
                // at the root, or behind a single-candidate revealer the root requires
                let req = if pr.chance(1, 3) {
                    let name = w.packages.keys().max().unwrap() + 1;
                    let s = w.solvables.keys().max().unwrap() + 1;
                    let vs = w.version_sets.keys().max().unwrap() + 1;
                    w.solvables.insert(s, Solvable { name, deps: known(vec![Req::Single(e)], vec![]) });
                    w.packages.insert(
                        name,
                        Package {
                            candidates: vec![s],
                            rank: vec![s],
                            favored: None,
                            locked: None,
                            excluded: vec![],
                            hint: if pr.chance(1, 3) { Hint::All } else { Hint::None },
                            missing: false,
                        },
                    );
                    w.version_sets.insert(vs, VersionSet { name, matches: vec![s] });
                    Req::Single(vs)
                } else {
                    Req::Single(e)
                };
                let pos = pr.below(reqs.len() + 1);
                reqs.insert(pos, req);
            }
            let mut sc = Scenario::basic(
                w,
                ProblemSpec {
                    requirements: reqs,
                    constraints: vec![],
                    soft: vec![],
                },
            );
            gen_config(&mut cr, &mut sc, None);
            sc.hash_salt = cr.next_u64();
            sc.capture_state = true;
            // "any discovery order" includes candidates named as soft requirements ...
            if j.is_none() && n >= 2 && pr.chance(1, 3) {
                for _ in 0..pr.range(1, 2) {
                    let other = (i + 1 + pr.below(n - 1)) % n;
                    sc.solves[0].problem.soft.push(other as u32);
                }
            }
            // ... and a second solve on the same solver (the same problem again, or the single problem first)
            if pr.chance(1, 4) {
                let mut first = sc.solves[0].clone();
                if pr.chance(1, 2) && first.problem.requirements.len() > 1 {
                    first.problem.requirements.pop();
                }
                sc.solves.insert(0, first);
            }
            out.push(sc);
        }
        out
    }
    fn judge(&self, sc: &Scenario) -> Verdict {
        let w = &sc.world;
        let rec = execute(sc);
        let mut v = base_verdict(sc, &rec);
        if rec.outcomes.iter().any(|o| o.is_crash()) {
            v.aborted_other = true;
            return v;
        }
        v.nontrivial = w.packages.values().any(|p| p.candidates.len() >= 3);
        for (si, o) in rec.outcomes.iter().enumerate() {
            let p = &sc.solves[si].problem;
            // invariant on the recorded clause database: any two candidates that requirements offer are mutually
            // exclusive through their helper patterns, whatever order they were registered in
            if let Some(Some(d)) = rec.dumps.get(si) {
                *v.probes.entry("internal_state_checked").or_insert(0) += 1;
                if let Some(e) = crate::internal::at_most_one_encoding(w, d) {
                    v.evaluated = true;
                    v.violate("internal:at-most-one", format!("solve #{si}: {e}"));
                }
            }
            // Whether the problem requires two different candidates of one package (directly, through revealer
            // solvables or through unions whose other alternative is dead) is decided by the reference.
            match ref_verdict(w, p) {
                None => v.inconclusive = true,
                Some(false) => {
                    v.evaluated = true;
                    if let Outcome::Ok(s) = o {
                        let mut per: std::collections::BTreeMap<u32, Vec<u32>> = Default::default();
                        for x in s {
                            per.entry(w.solvable_name(*x)).or_default().push(*x);
                        }
                        let multi: Vec<&Vec<u32>> = per.values().filter(|c| c.len() > 1).collect();
                        v.violate("pair-accepted", format!("solve #{si}: the problem cannot be satisfied with one solvable per package, but solve returned {s:?} (several from one package: {multi:?})"));
                    }
                }
                Some(true) => {
                    v.evaluated = true;
                    match o {
                        Outcome::Ok(s) => {
                            if let Some((cat, text)) = crate::reference::validity_errors(w, p, s).first() {
                                v.violate(format!("single-wrong:{cat}"), format!("solve #{si} returned {s:?}: {text}"));
                            }
                        }
                        Outcome::Unsolvable(_) => v.violate("single-rejected", format!("solve #{si}: requiring exactly one candidate of the package is satisfiable but solve says Unsolvable")),
                        _ => {}
                    }
                }
            }
        }
        v
    }
}
