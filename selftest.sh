#!/bin/bash
# Self-tests of the simulator itself.
#   selftest.sh determinism [N]   per-seed digests of the full event log: 2 processes x 2 profiles must agree
#   selftest.sh seeded [name]     apply /verif/seeded/<name>/patch.diff to /repo, run the owning check, expect a
#                                 reproducible VIOLATION, revert /repo
set -u
VERIF_DIR="$(cd "$(dirname "$0")" && pwd)"
SIM="$VERIF_DIR/sim"
BIN="$SIM/target/release/resolvo-sim"
BIN_DA="$SIM/target/relda/resolvo-sim"
BIN_ASAN="$SIM/target/asan/x86_64-unknown-linux-gnu/release/resolvo-sim"
PROPS="C01 C02 C03 C04 C05 C06 C07 C08 C09 C10 C11 C12 C13 C14 C15 C16 C20"
case "${1:-}" in
  determinism)
    N="${2:-400}"
    TMP="$SIM/target/tmp/determinism"
    rm -rf "$TMP"; mkdir -p "$TMP"
    fail=0
    for p in $PROPS; do
      ( "$BIN" digest $p quick 0 $N > "$TMP/$p.a" ) &
      ( "$BIN" digest $p quick 0 $N > "$TMP/$p.b" ) &
      ( "$BIN_DA" digest $p quick 0 $N > "$TMP/$p.c" ) &
      # split range in another process layout (different process, different start)
      ( "$BIN" digest $p quick $((N/2)) $N > "$TMP/$p.d2"; "$BIN" digest $p quick 0 $((N/2)) > "$TMP/$p.d1" ) &
      # the sanitizer build runs the same deterministic simulation (memory-error oracle of five properties)
      runs="b c d"
      case "$p" in C04|C10|C13|C16|C20)
        if [ -x "$BIN_ASAN" ]; then ( ASAN_OPTIONS=detect_leaks=0 "$BIN_ASAN" digest $p quick 0 $N > "$TMP/$p.e" ) & runs="b c d e"; fi ;;
      esac
      wait
      cat "$TMP/$p.d1" "$TMP/$p.d2" > "$TMP/$p.d"
      lines=$(wc -l < "$TMP/$p.a")
      for x in $runs; do
        if ! cmp -s "$TMP/$p.a" "$TMP/$p.$x"; then
          echo "DETERMINISM MISMATCH property=$p run=$x"; diff "$TMP/$p.a" "$TMP/$p.$x" | head -5; fail=1
        fi
      done
      echo "$p: $lines digests identical across 2 release processes, the debug-assertions build and a split-range run$( [ "$runs" = "b c d e" ] && echo ', and the sanitizer build')"
    done
    rm -rf "$TMP"
    exit $fail ;;
  seeded)
    sel="${2:-}"
    rc=0
    export VERIF_EVIDENCE_DIR="$SIM/target/tmp/seeded-evidence"
    export VERIF_REPLAY_DIR="$SIM/target/tmp/seeded-replays"
    mkdir -p "$VERIF_EVIDENCE_DIR" "$VERIF_REPLAY_DIR"
    REPO="${VERIF_REPO:-/repo}"
    if [ -n "$(git -C $REPO status --porcelain --untracked-files=no)" ]; then echo "harness error: $REPO has uncommitted changes" >&2; exit 2; fi
    for d in "$VERIF_DIR"/seeded/*/; do
      name=$(basename "$d")
      [ -n "$sel" ] && [ "$sel" != "$name" ] && continue
      [ -f "$d/patch.diff" ] || continue
      props=$(python3 -c "import json,sys; m=json.load(open(sys.argv[1])); print(' '.join(m.get('detected_by', [m['property']])))" "$d/meta.json")
      # a few changes are caught at thorough scale only; their meta.json names the batch size
      runs=$(python3 -c "import json,sys; m=json.load(open(sys.argv[1])); print(m.get('verif_runs',''))" "$d/meta.json")
      if [ -n "$runs" ]; then export VERIF_RUNS=$runs; else unset VERIF_RUNS; fi
      if ! git -C $REPO apply "$d/patch.diff"; then echo "$name: patch does not apply"; rc=1; continue; fi
      found=""
      for p in $props; do
        out=$("$VERIF_DIR/check" $p quick 2>&1); code=$?
        if [ $code -eq 1 ] && echo "$out" | grep -q "^VIOLATION property=$p"; then found="$found $p"; fi
      done
      git -C $REPO checkout -- .
      if [ -n "$found" ]; then echo "$name: DETECTED by$found"; else echo "$name: MISSED (ran: $props)"; rc=1; fi
    done
    "$VERIF_DIR/check" build
    exit $rc ;;
  refactors)
    # property-preserving changes: every quick check must stay silent (exit 0) and the pinned suite green
    sel="${2:-}"
    rc=0
    export VERIF_EVIDENCE_DIR="$SIM/target/tmp/seeded-evidence"
    export VERIF_REPLAY_DIR="$SIM/target/tmp/seeded-replays"
    mkdir -p "$VERIF_EVIDENCE_DIR" "$VERIF_REPLAY_DIR"
    REPO="${VERIF_REPO:-/repo}"
    if [ -n "$(git -C $REPO status --porcelain --untracked-files=no)" ]; then echo "harness error: $REPO has uncommitted changes" >&2; exit 2; fi
    for d in "$VERIF_DIR"/refactors/*/; do
      name=$(basename "$d")
      [ -n "$sel" ] && [ "$sel" != "$name" ] && continue
      if ! git -C $REPO apply "$d/patch.diff"; then echo "$name: patch does not apply"; rc=1; continue; fi
      suite=$(cd $REPO && cargo test --workspace --no-fail-fast --offline 2>&1 | grep -c "FAILED")
      alarms=""
      for p in $PROPS; do
        out=$("$VERIF_DIR/check" $p quick 2>&1); code=$?
        if [ $code -ne 0 ]; then alarms="$alarms $p(exit $code: $(echo "$out" | grep -m1 'class=' | cut -c1-120))"; fi
      done
      git -C $REPO checkout -- .
      if [ -z "$alarms" ] && [ "$suite" = "0" ]; then echo "$name: SILENT (17 checks exit 0, suite green)"; else echo "$name: ALARM:$alarms suite_failed_lines=$suite"; rc=1; fi
    done
    "$VERIF_DIR/check" build
    exit $rc ;;
  *) echo "usage: selftest.sh determinism [N] | seeded [name] | refactors [name]" >&2; exit 2 ;;
esac
